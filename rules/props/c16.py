"""C16 — any input text leads to a result or a reported error, never a crash."""
import collections
import re

from ..facts import AnalysisGap, callee, callee_generic, ctor_of, local_of, strip, walk
from .. import callgraph, gcov, grammar, hq, sym

EXPLANATION = (
    "PANIC: the call graph of the crate (MIR; closures, function references, portfolio constants, lazy statics; unresolved trait calls go to "
    "every impl; every impl of a foreign trait such as Display/FromStr/From is a root besides main) is searched for panic sites in anthem's own "
    "bodies: core::panicking calls (panic!/unreachable!/assert!), unwrap/expect, Index on Vec/slice/maps, MIR overflow / bounds / division "
    "asserts, abs, and library calls that panic by contract (zip_eq, swap_remove, split_off, Vec::remove, split_at, exactly_one). An overflow "
    "assertion on a sum of Vec / slice lengths and small literals is discharged structurally (a length is at most isize::MAX / element size). "
    "Every other reachable site must be discharged: PANIC-EOI (every parser's entry rule is `_{ X ~ EOI }` with X the rule its "
    "translate_pair expects - discharges the whole-input assertion and the pair bookkeeping of Parser::parse); PANIC-GCOV (all 43 translate_pair "
    "functions are abstractly interpreted over every child-pair sequence the grammar can produce for the rules they can be entered with: "
    "report_unexpected_pair / report_missing_pair / unwrap on an absent pair / Pratt parser misuse are unreachable); PANIC-CONSTARG (unreachable! "
    "arms on an enum parameter: every call site passes a literal variant of the handled set); TAB-VALID (validator accepts only what the consumer "
    "handles); PANIC-TAB (remaining sites: a table keyed by function and kind with the exact number of sites and the invariant that discharges "
    "them; a new or additional site is a violation). PANIC-NUM: numeral / arity text is converted with parse().unwrap() although the grammar does "
    "not bound the digits (known finding). FLOW-ERR: in main every fallible step (file sorting, parsing, decompose, writing problems) is propagated "
    "with `?`. SHARED: the regularity and p2f obligations of C08 discharge the expects of natural_head_interval; the call-site table of C17 (with the subsort table) discharges the panics of GeneralTerm::substitute. SHARED: the chain obligations of C12 discharge the `s[0]`, `s[1]` index sites of Display for Problem.")
UNDECIDED = ["stack exhaustion on deeply nested input", "hangs other than rule RW-3 (C18)", "panics inside dependencies reached only through library calls (pest, clap, regex, petgraph, indexmap)"]
ASSUMPTIONS = ["pest produces exactly the pair structure its grammar describes", "debug-build overflow checks are the stricter case"]

PANICKY = ("core::panicking::", "Option::<T>::unwrap", "Option::<T>::expect", "Result::<T, E>::unwrap", "Result::<T, E>::expect", "ops::Index", "ops::index",
           "::abs", "process::exit", "process::abort",
           # library calls that panic by contract (unequal lengths, index out of range): none on the pinned tree, each new one needs its invariant
           "Itertools::zip_eq", "itertools::zip_eq", "Vec::<T, A>::swap_remove", "Vec::<T, A>::split_off", "Vec::<T, A>::remove", "<impl [T]>::split_at", "Itertools::exactly_one")
FOREIGN = ("std", "core", "alloc", "clap", "pest", "derive_more", "lazy_static", "thiserror", "either", "indexmap", "itertools")

TS = "translating::formula_representation::tau_star::"
NA = "translating::formula_representation::natural::"
UN = "simplifying::fol::sigma_0::classic::unstable::"
FD = "formatting::fol::sigma_0::default::Format<'_, syntax_tree::fol::sigma_0::"
# (function, kind) -> (count, invariant that discharges the site(s))
TABLE = {
    ("<T as parsing::Parser>::parse", "panic"): (1, "PANIC-EOI: assert_eq!(pairs.as_str(), input) holds because every entry rule ends in EOI and starts at offset 0"),
    ("parsing::PestParser::report_missing_pair", "panic"): (1, "PANIC-GCOV: unreachable for every pair sequence the grammar produces"),
    ("parsing::PestParser::report_unexpected_pair", "panic"): (1, "PANIC-GCOV: unreachable for every pair sequence the grammar produces"),
    ("<formatting::asp::mini_gringo::default::Format<'_, syntax_tree::asp::mini_gringo::Atom> as std::fmt::Display>::fmt", "unwrap"): (1, "DOM: iter.next().unwrap() is dominated by !terms.is_empty()"),
    ("<" + FD + "Atom> as std::fmt::Display>::fmt", "unwrap"): (1, "DOM: iter.next().unwrap() is dominated by !terms.is_empty()"),
    ("<formatting::fol::sigma_0::tptp::Format<'_, syntax_tree::fol::sigma_0::Atom> as std::fmt::Display>::fmt", "unwrap"): (1, "DOM: iter.next().unwrap() is dominated by !terms.is_empty()"),
    ("<formatting::asp::mini_gringo::default::Format<'_, syntax_tree::asp::mini_gringo::Term> as formatting::Precedence>::fmt_operator", "panic"): (1, "CALLERS: fmt_operator is only called by fmt_unary / fmt_binary, which Display calls for operations only"),
    ("<" + FD + "Formula> as formatting::Precedence>::fmt_operator", "panic"): (1, "CALLERS: only via fmt_unary / fmt_binary from the non-atomic arms of Display"),
    ("<" + FD + "IntegerTerm> as formatting::Precedence>::fmt_operator", "panic"): (1, "CALLERS: only via fmt_unary / fmt_binary from the operation arms of Display"),
    ("<formatting::fol::sigma_0::tptp::Format<'_, syntax_tree::fol::sigma_0::Formula> as formatting::Precedence>::fmt_operator", "panic"): (1, "CALLERS: only via fmt_unary / fmt_binary from the non-atomic arms of Display"),
    ("<" + FD + "Formula> as formatting::Precedence>::associativity", "panic"): (1, "PREC: associativity() of an atomic operand is only evaluated after precedence equality with an operator; atomic precedence 0 differs from every operator precedence (checked)"),
    ("<syntax_tree::asp::mini_gringo::Program as analyzing::private_recursion::PrivateRecursion>::has_private_recursion", "index"): (2, "MAP: mapping holds every private predicate of self.predicates(); both indices are tested with private_predicates.contains and occur in the program"),
    ("<syntax_tree::asp::mini_gringo::Program as analyzing::tightness::Tightness>::is_tight", "index"): (2, "MAP: mapping holds every predicate of self.predicates(); head and body predicates of the program's rules are among them"),
    ("<syntax_tree::fol::sigma_0::Formula as verifying::outline::CheckInternal>::inductive_lemma", "index"): (1, "DOM: guards[0] follows the early return for guards.len() != 1"),
    ("<translating::formula_representation::tau_star::RE as std::ops::Deref>::deref::__static_ref_initialize", "unwrap"): (1, "CONST: Regex::new on a literal pattern"),
    ("<verifying::prover::STATUS as std::ops::Deref>::deref::__static_ref_initialize", "unwrap"): (1, "CONST: Regex::new on a literal pattern"),
    ("<verifying::prover::vampire::Vampire as verifying::prover::Prover>::prove", "unwrap"): (1, "DOM: child.stdin.take() after .stdin(Stdio::piped()) on the same command"),
    ("<verifying::task::external_equivalence::ExternalEquivalenceTask as verifying::task::Task>::decompose", "expect"): (1, "INV: tau* output is closed with variable head arguments and program-wide globals, hence completable (C01/C04)"),
    ("<verifying::task::external_equivalence::ExternalEquivalenceTask as verifying::task::Task>::decompose", "unwrap"): (1, "INF: next() on the unbounded range 0.."),
    ("<verifying::task::external_equivalence::ExternalEquivalenceTaskWarning as std::fmt::Display>::fmt", "panic"): (1, "CONSTARG: the warning is constructed only in the Forward / Backward arms of the routing"),
    ("<verifying::task::external_equivalence::ValidatedExternalEquivalenceTask as verifying::task::Task>::decompose", "panic"): (2, "TAB-VALID: outline roles are refused by ensure_specification_roles_are_supported; control translation only builds Spec / Assumption"),
    ("<verifying::problem::Problem as std::fmt::Display>::fmt", "assert:BoundsCheck"): (2, "WINDOW: s[0], s[1] on windows(2)"),
    ("verifying::prover::Prover::instances", "assert:DivisionByZero"): (1, "NONZERO: cores() returns num_cpus::get() (>= 1) or the non-zero field"),
    ("<verifying::prover::vampire::Vampire as verifying::prover::Prover>::instances", "assert:DivisionByZero"): (1, "NONZERO: cores() returns num_cpus::get() (>= 1) or the non-zero field"),
    (NA + "fresh_variables_for_head_atom", "assert:Overflow"): (1, "SIZE: j counts names already taken by the atom's variables, bounded by the input length"),
    (UN + "equality_comparison", "index"): (1, "NONEMPTY: Comparison.guards is non-empty (grammar guard+, every constructor site builds at least one guard)"),
    (UN + "replacement_helper", "index"): (1, "ARITY: varnames[0] of choose_fresh_variable_names(.., 1)"),
    (UN + "replacement_helper", "panic"): (1, "CONSTARG: both callers pass the quantified formula they matched"),
    (UN + "replacement_helper", "unwrap"): (1, "NONEMPTY: variable names are non-empty (grammar)"),
    (UN + "simplify_transitive_equality", "index"): (1, "NONEMPTY: drop_term.guards[0]: Comparison.guards is non-empty"),
    (UN + "transitive_equality", "index"): (2, "NONEMPTY: guards[0] of comparisons that passed equality_comparison"),
    ("syntax_tree::fol::sigma_0::Formula::substitute", "unwrap"): (1, "INF: find() on the infinite Variable::sequence with a finite exclusion set"),
    ("syntax_tree::fol::sigma_0::GeneralTerm::substitute", "panic"): (2, "C17-SITES: every call site of Formula::substitute passes a sort-compatible term"),
    (TS + "choose_fresh_global_variables", "assert:Overflow"): (2, "SIZE for max_arity + 1; `max_taken_var + i` is input-derived: known finding"),
    (TS + "choose_fresh_global_variables", "index"): (1, "REGEX: caps[\"number\"] names a group of the literal pattern RE"),
    (TS + "choose_fresh_variable_names", "assert:Overflow"): (2, "SIZE: arity + 1 and m += 1 are bounded by the number of variables of the input"),
    (UN + "choose_fresh_variable_names", "assert:Overflow"): (2, "SIZE: arity + 1 and m += 1 are bounded by the number of variables of the input"),
    (TS + "tau_star_fo_head_rule", "assert:BoundsCheck"): (2, "ARITY: fvars = globals[0..head_arity], i < head_arity (enumerate over the head terms)"),
    ("translating::classical_reduction::completion::heads", "panic"): (1, "KEYS: keys of Definitions are built only from AtomicFormula::Atom (split_implication, atomic_formula_from)"),
    (NA + "natural_head_atom", "unwrap"): (1, "COUNT: one fresh name per term that is not regular of the first kind; consumed once per term of the second kind, other terms return None first"),
    (NA + "natural_head_interval", "expect"): (2, "DOM: inside if is_term_regular_of_second_kind(t): both sides are regular of the first kind"),
    (NA + "natural_head_interval", "panic"): (2, "DOM: inside if is_term_regular_of_second_kind(t): t is a binary operation"),
    (NA + "natural_head_interval", "unwrap"): (1, "COUNT: as natural_head_atom, called only after it returned Some"),
    (TS + "choose_fresh_global_variables", "unwrap"): (0, ""),
    (TS + "construct_equality_formula", "panic"): (2, "CONSTARG: z is never symbol-sorted; called only for precomputed terms and variables"),
    (TS + "construct_interval_formula", "panic"): (1, "CONSTARG: z is never symbol-sorted"),
    (TS + "construct_partial_function_formula", "panic"): (2, "CONSTARG: z is never symbol-sorted; binop is Divide or Modulo at both call sites"),
    (TS + "construct_partial_function_formula", "unwrap"): (2, "ARITY: pop() of choose_fresh_variable_names(.., 1)"),
    (TS + "construct_total_function_formula", "panic"): (2, "CONSTARG: z is never symbol-sorted; binop is Add / Subtract / Multiply at every call site"),
    (TS + "tau_b_comparison", "index"): (4, "ARITY: varnames[0], varnames[1] of choose_fresh_variable_names(.., 2)"),
    (TS + "tau_b_first_order_literal", "index"): (2, "ARITY: varnames[i], i < arity = terms.len()"),
    (TS + "tau_star_fo_head_rule", "index"): (1, "ARITY: globals[0..head_arity] with |globals| = max head arity of the program whose rules are translated"),
    (TS + "tau_star_fo_head_rule", "panic"): (1, "DISPATCH: called only when head.predicate() is Some (Basic / Choice)"),
    (TS + "tau_star_fo_head_rule", "unwrap"): (2, "DISPATCH: head.predicate() / head.terms() are Some for Basic / Choice heads"),
    (TS + "tau_star_prop_head_rule", "panic"): (1, "DISPATCH: called only when head.predicate() is Some"),
    (TS + "tau_star_prop_head_rule", "unwrap"): (1, "DISPATCH: head.predicate() is Some"),
    (TS + "val", "unwrap"): (3, "ARITY: pop() of choose_fresh_variable_names(.., 1)"),
    ("verifying::prover::Prover::prove_all", "unwrap"): (1, "CHANNEL: the receiver outlives every sender (it is returned as the result iterator)"),
}


ARITH_CALL = re.compile(r"^<&?(?:'\w+ )?(isize|usize|i8|i16|i32|i64|i128|u8|u16|u32|u64|u128) as std::ops::(Neg|Add|Sub|Mul|Div|Rem|Shl|Shr|AddAssign|SubAssign|MulAssign|DivAssign|RemAssign)(?:<[^>]*>)?>::")


def site_kind(c):
    if "panicking" in c:
        return "panic"
    for lib_ in ("zip_eq", "swap_remove", "split_off", "split_at", "exactly_one"):
        if c.endswith(lib_):
            return lib_
    if c.endswith("::remove"):
        return "remove"
    if c.endswith("unwrap"):
        return "unwrap"
    if c.endswith("expect"):
        return "expect"
    if "ndex" in c:
        return "index"
    return hq.last(c)


_OVF_ADD = re.compile(r"^Overflow\(Add, (?:move|copy) _(\d+), (?:(?:move|copy) _(\d+)|const (\d+)_usize)\)$")
_ADD_RV = re.compile(r"^AddWithOverflow\((?:move|copy) _(\d+), (?:(?:move|copy) _(\d+)|const (\d+)_usize)\)$")
_FIELD0 = re.compile(r"^(?:move|copy) \(_(\d+)\.0: usize\)$")
_LEN_CALLS = ("std::vec::Vec::<T, A>::len", "core::slice::<impl [T]>::len", "std::slice::<impl [T]>::len")
LEN_PLUS_CONST = []   # sites discharged structurally in the last collect_sites run: (function, file, line)


def _elem_units(fx, gargs):
    """how large a length of a Vec / slice of this element type can be, in units of isize::MAX / 8: 1 when an element takes at least 8 bytes
    (it holds a String / Vec / Box / usize), 8 when it takes at least one byte, None when it may be zero-sized (then a length is unbounded)"""
    ty = (gargs or "").strip("[]").split(",")[0].strip()
    if not ty or ty.startswith(("(", "[", "&")):
        return None
    if _wide(fx, ty, 0):
        return 1
    return 8 if _sized(fx, ty, 0) else None


def _wide(fx, ty, depth):
    if ty in ("std::string::String", "usize", "isize", "u64", "i64") or ty.startswith(("std::vec::Vec<", "std::boxed::Box<", "std::string::String")):
        return True
    a = fx.adts.get(ty)
    if a is None or depth > 4:
        return False
    return any(_wide(fx, f_.get("ty", ""), depth + 1) for v in a.get("variants", []) for f_ in v.get("fields", [])) and len(a.get("variants", [])) == 1


def _sized(fx, ty, depth):
    if ty in ("std::string::String", "usize", "isize", "u8", "char", "bool") or ty.startswith(("std::vec::Vec<", "std::boxed::Box<", "std::string::String")):
        return True
    a = fx.adts.get(ty)
    if a is None or depth > 4:
        return False
    vs = a.get("variants", [])
    return len(vs) > 1 or any(_sized(fx, f_.get("ty", ""), depth + 1) for v in vs for f_ in v.get("fields", []))


def _units(fx, m, loc, depth=0):
    """an upper bound of the value of local `loc` in units of isize::MAX / 8 when it is a length, or a sum of lengths and small literals"""
    if depth > 6:
        return None
    defs = [b2["term"] for b2 in m["blocks"] if b2["term"].get("t") == "Call" and b2["term"].get("dst") == loc]
    assigns = [st for b2 in m["blocks"] for st in b2.get("stmts", []) if st.get("dst") == loc]
    if len(defs) == 1 and not assigns:
        c = defs[0]
        if (c.get("callee_res") or c.get("callee")) in _LEN_CALLS:
            return _elem_units(fx, c.get("gargs"))
        return None
    if len(assigns) == 1 and not defs:
        f0 = _FIELD0.match(assigns[0].get("rv", ""))
        if f0:
            src = [st for b2 in m["blocks"] for st in b2.get("stmts", []) if st.get("dst") == int(f0.group(1))]
            if len(src) == 1:
                am = _ADD_RV.match(src[0].get("rv", ""))
                if am:
                    return _sum_units(fx, m, am, depth + 1)
    return None


def _sum_units(fx, m, mm, depth=0):
    a = _units(fx, m, int(mm.group(1)), depth)
    if mm.group(2) is not None:
        b = _units(fx, m, int(mm.group(2)), depth)
    else:
        b = 1 if int(mm.group(3)) <= 2 ** 20 else None
    return None if a is None or b is None else a + b


def _len_plus_const(fx, m, bl):
    """`xs.len() + K`, `xs.len() + ys.len() + ..`: a Vec / slice of elements of s bytes holds at most isize::MAX / s of them, so a sum of lengths
    and small literals that stays below 16 units of isize::MAX / 8 (= 2 * isize::MAX < usize::MAX) cannot leave usize"""
    mm = _OVF_ADD.match(bl["term"].get("msg", ""))
    if not mm:
        return False
    u = _sum_units(fx, m, mm)
    return u is not None and u <= 16


def collect_sites(fx, cg):
    del LEN_PLUS_CONST[:]
    roots = ["command_line::procedures::main"]
    for b in fx.body_list:
        td = b.get("impl", {}).get("trait_def")
        if td and td.split("::")[0] in FOREIGN and b["def_path"] in cg.mir:
            roots.append(b["def_path"])
    reach = cg.reachable(roots)
    sites = collections.Counter()
    where = {}
    for dp in sorted(reach):
        m = cg.mir[dp]
        if not m["file"].startswith("src/"):
            continue
        owner = dp.split("::{closure")[0]
        b = cg.bodies.get(owner)
        if b is not None and b["body"].get("mac", "").startswith("#"):
            continue
        in_pest = m["file"].endswith("/pest.rs")
        for bl in m["blocks"]:
            if bl.get("cleanup"):
                continue
            t = bl["term"]
            if t.get("t") == "Assert" and t["assert"] == "Overflow" and _len_plus_const(fx, m, bl):
                LEN_PLUS_CONST.append((owner, m["file"], t.get("line")))
                continue
            elif t.get("t") == "Assert" and t["assert"] not in ("MisalignedPointerDereference", "NullPointerDereference"):
                k = (owner, "assert:" + t["assert"])
            elif t.get("t") == "Call":
                c = t.get("callee_res") or t.get("callee") or ""
                ar = ARITH_CALL.match(c)
                if ar:
                    # integer arithmetic through the operator impls on references (`-n` with n: &isize): overflow / division checks live in the callee
                    k = (owner, "arith:" + ar.group(2))
                elif not any(p in c for p in PANICKY) or c.endswith(("unwrap_or", "unwrap_or_else", "unwrap_or_default")):
                    continue
                else:
                    k = (owner, site_kind(c))
            else:
                continue
            if in_pest:
                k = ("<pest parsers>", k[1])
            sites[k] += 1
            where.setdefault(k, (m["file"], t.get("line")))
    return sites, where, len(reach), len(roots)


def _unbounded(e, depth=0):
    """is the iterator expression e built from an unbounded range (`n..`) through adaptors that keep it unbounded?"""
    e = strip(e)
    if depth > 12 or not isinstance(e, dict):
        return False
    if e.get("k") == "Struct" and "RangeFrom" in str(e.get("res", {}).get("adt", "")) + str(e.get("ty", "")):
        return True
    if e.get("k") == "MethodCall":
        m = e.get("method")
        if m in ("map", "filter", "inspect", "enumerate", "skip", "step_by", "peekable", "by_ref", "fuse", "cloned", "copied", "into_iter", "iter", "skip_while", "filter_map", "cycle"):
            return _unbounded(e["recv"], depth + 1) or (m == "cycle")
        if m == "chain":
            return _unbounded(e["recv"], depth + 1) or any(_unbounded(a, depth + 1) for a in e.get("args", []))
    if e.get("k") == "Call" and (callee_generic(e) or "").endswith(("iter::repeat", "iter::repeat_with", "iter::successors")) is True:
        return (callee_generic(e) or "").endswith(("iter::repeat", "iter::repeat_with"))
    return False


def _regex_group_indexes(fx, fn):
    """number of `captures["name"]` index expressions in fn whose name is a named group (`(?<name>` / `(?P<name>`) of a regex literal in fn's file"""
    bs = fx.bodies.get(fn, [])
    if len(bs) != 1:
        return 0
    groups = set()
    for b2 in fx.all_bodies if hasattr(fx, "all_bodies") else fx.body_list:
        if b2["file"] != bs[0]["file"]:
            continue
        for node in walk(b2["body"]):
            if node.get("k") == "Lit" and isinstance(node.get("v"), str):
                groups |= set(re.findall(r"\(\?P?<([A-Za-z_][A-Za-z0-9_]*)>", node["v"]))
    n = 0
    for node in walk(bs[0]["body"]):
        if node.get("k") == "Index":
            base, idx = strip(node.get("e", node.get("base", {}))), strip(node.get("i", node.get("idx", node.get("index", {}))))
            if "Captures" in str(base.get("ty", "")) and idx.get("k") == "Lit" and idx.get("v") in groups:
                n += 1
    return n


def _infinite_searches(fx, fn, kind):
    """number of `.unwrap()` / `.expect(..)` calls in fn whose receiver is find / next / position / find_map on an unbounded iterator"""
    bs = fx.bodies.get(fn, [])
    if len(bs) != 1:
        return 0
    n = 0
    for node in walk(bs[0]["body"]):
        if node.get("k") == "MethodCall" and node.get("method") == kind:
            r = strip(node["recv"])
            if r.get("k") == "MethodCall" and r.get("method") in ("find", "next", "position", "find_map") and _unbounded(r["recv"]):
                n += 1
    return n


def rule_sites(ctx):
    fx = ctx.facts
    cg = callgraph.CallGraph(fx)
    sites, where, n_reach, n_roots = collect_sites(fx, cg)
    ctx.count("functions_reachable", n_reach)
    ctx.count("roots", n_roots)
    ctx.floor("PANIC-TAB", "panic_sites", sum(sites.values()), 20)  # guard that the collector works; fewer sites is an improvement
    for owner, f_, l_ in LEN_PLUS_CONST:
        ctx.ok("PANIC-TAB", "len-plus-const:%s" % owner, "%s:%s" % (f_, l_), "a sum of Vec / slice lengths (sized element types) and small literals: a length is at most isize::MAX / element size, the sum stays inside usize", nontrivial=False)
    # sites that left their listed function (helper extraction, code motion inside one file) leave slack for unlisted sites of the same
    # kind in the same file; a site that is new to the file exceeds the slack and is reported
    files = {b["def_path"]: b["file"] for b in fx.body_list}

    def file_of(dp):
        if dp in files:
            return files[dp]
        inner = re.sub(r"^<([^ ]+?)(?:<.*)? as .*$", r"\1", dp)
        best, bl = None, -1
        for d, f_ in files.items():
            d2 = re.sub(r"^<([^ ]+?)(?:<.*)? as .*$", r"\1", d)
            n_ = 0
            for a, b_ in zip(inner.split("::"), d2.split("::")):
                if a != b_:
                    break
                n_ += 1
            if n_ > bl:
                best, bl = f_, n_
        return best
    slack = collections.Counter()
    for (fn, kind), ent in TABLE.items():
        missing = ent[0] - sites.get((fn, kind), 0)
        if missing > 0:
            slack[(file_of(fn), kind)] += missing
    for (fn, kind), n in sorted(sites.items()):
        if fn == "<pest parsers>":
            continue  # PANIC-GCOV / PANIC-NUM
        ent = TABLE.get((fn, kind))
        f, l = where[(fn, kind)]
        allowed = ent[0] if ent else 0
        extra = n - allowed
        if extra > 0 and slack[(f, kind)] >= extra:
            slack[(f, kind)] -= extra
            ctx.ok("PANIC-TAB", "moved:%s|%s" % (f, kind), "%s:%s" % (f, l),
                   "%d site(s) of kind `%s` in %s: as many discharged sites of that kind left their listed functions in the same file (code motion / helper extraction)" % (extra, kind, fn), nontrivial=False)
            extra = 0
        if extra > 0 and fn not in sym.known_functions():
            # a function that did not exist when the table was written (a helper, a method of a new struct) in another file of the same
            # module directory: it may hold sites that left the listed functions of that directory (`src/analyzing/*.rs`)
            import os as _os
            d_ = _os.path.dirname(f or "")
            donors = [(f2, k2) for (f2, k2), n2 in slack.items() if k2 == kind and n2 > 0 and f2 and (_os.path.dirname(f2) == d_ or _os.path.dirname(f2).startswith(d_ + "/") or d_.startswith(_os.path.dirname(f2) + "/"))]
            if sum(slack[x_] for x_ in donors) >= extra:
                need = extra
                for x_ in donors:
                    take = min(need, slack[x_])
                    slack[x_] -= take
                    need -= take
                ctx.ok("PANIC-TAB", "moved:%s|%s" % (f, kind), "%s:%s" % (f, l),
                       "%d site(s) of kind `%s` in the new function %s: as many discharged sites of that kind left their listed functions in the same module directory" % (extra, kind, fn), nontrivial=False)
                extra = 0
        if extra > 0 and kind == "index" and _regex_group_indexes(fx, fn) >= n:
            ctx.ok("PANIC-TAB", "regex-group:%s|%s" % (fn, kind), "%s:%s" % (f, l),
                   "%d index site(s) in %s read a named group of regex captures, and a regex literal of the same file has a group of that name" % (n, fn), nontrivial=False)
            extra = 0
            if ent is None:
                continue
        if extra > 0 and kind in ("unwrap", "expect") and _infinite_searches(fx, fn, kind) >= n:
            ctx.ok("PANIC-TAB", "inf:%s|%s" % (fn, kind), "%s:%s" % (f, l),
                   "%d `%s` site(s) in %s take the result of find / next / position on an iterator built from an unbounded range (`n..`): it is never None" % (n, kind, fn), nontrivial=False)
            extra = 0
            if ent is None:
                continue
        if ent is None or ent[0] == 0:
            if extra > 0:
                ctx.bad("PANIC-TAB", "%s|%s" % (fn, kind), "%s:%s" % (f, l), "%d reachable panic site(s) of kind `%s` in %s are in no discharge table" % (n, kind, fn))
        else:
            ctx.add("PANIC-TAB", "%s|%s" % (fn, kind), extra <= 0, "%s:%s" % (f, l),
                    "%d site(s) of kind `%s` (table: %d) discharged by: %s" % (n, kind, ent[0], ent[1]), construct={"count": n, "reason": ent[1]})
    # the pest files: only the GCOV-discharged calls and the numeral conversions
    pk = {k[1]: v for k, v in sites.items() if k[0] == "<pest parsers>"}
    extra = {k: v for k, v in pk.items() if k not in ("report_missing_pair", "report_unexpected_pair", "unwrap")}
    ctx.add("PANIC-TAB", "pest-files", not extra, "src/parsing", "panic sites in the parser files besides report_* (GCOV) and parse().unwrap() (NUM): %s" % (extra or "none"), construct=pk)


def rule_structural_discharges(ctx):
    """The computed parts of the table: CONSTARG / ARITY / DOM facts that the reasons above rely on."""
    fx = ctx.facts
    # C17-SITES: GeneralTerm::substitute panics on a sort mismatch; the binder renaming of Formula::substitute hands it GeneralTerm::from(variable),
    # which must be an occurrence of the variable's own sort
    from .. import collect
    collect.check_variable_conversions(ctx, "PANIC-TAB", fx, which=("from",))
    # .. and every other caller of Formula::substitute must hand over a term of the variable's sort: the call-site table of C17, which for
    # simplify_transitive_equality rests on the subsort table (symbol <= general, integer <= general, nothing else)
    from . import c17 as _c17
    sub17 = type(ctx)(ctx.prop, ctx.tier, ctx.facts)
    _c17.rule_sites(sub17)
    for o in sub17.obls:
        o = dict(o)
        o["key"] = "PANIC-TAB:" + o["key"]
        o["rule"] = "PANIC-TAB"
        ctx.obls.append(o)
    # MAP: `mapping[&p]` in is_tight / has_private_recursion cannot miss a key because a node is created for every predicate of the program
    # (every private one) and an edge only joins predicates of its rules (both private): the graph obligations of C11
    from . import c11
    sub = type(ctx)(ctx.prop, ctx.tier, ctx.facts)
    c11.rule_graphs(sub)
    for o in sub.obls:
        if o["key"] in ("GRAPH:tight:nodes", "GRAPH:tight:edges", "GRAPH:private:nodes", "GRAPH:private:edges-restricted"):
            o = dict(o)
            o["key"] = "PANIC-TAB:MAP:" + o["key"].split(":", 1)[1]
            o["rule"] = "PANIC-TAB"
            ctx.obls.append(o)
    # DOM: `p2f(t2).expect(..)` / the panic arm of natural_head_interval sit behind is_term_regular_of_second_kind(t): that test must say what
    # the definition says (an interval whose two bounds are regular of the first kind and free of symbols / #inf / #sup), and p2f must be total
    # on terms of the first kind: the regularity equations and the p2f cases of C08
    from . import c08
    for rule_, prefixes in ((c08.rule_regularity, ("REG:",)), (c08.rule_p2f, ("P2F:", "TPL:p2f"))):
        sub = type(ctx)(ctx.prop, ctx.tier, ctx.facts)
        rule_(sub)
        for o in sub.obls:
            o = dict(o)
            o["key"] = "PANIC-TAB:DOM:" + o["key"]
            o["rule"] = "PANIC-TAB"
            ctx.obls.append(o)
    # WINDOW: `s[0]`, `s[1]` in Display for Problem index the windows of length 2 of the sorted symbol list (every window has two elements;
    # `chunks(2)` would leave a last chunk of one): the chain obligations of C12
    from . import c12 as _c12
    sub12 = type(ctx)(ctx.prop, ctx.tier, ctx.facts)
    _c12.rule_chain(sub12)
    for o in sub12.obls:
        o = dict(o)
        o["key"] = "PANIC-TAB:WINDOW:" + o["key"]
        o["rule"] = "PANIC-TAB"
        ctx.obls.append(o)
    # CONSTARG: binop arguments
    val = fx.fn("tau_star::val")
    for fn, allowed in (("tau_star::construct_total_function_formula", {"Add", "Subtract", "Multiply"}), ("tau_star::construct_partial_function_formula", {"Divide", "Modulo"})):
        cs = [c for b in fx.body_list for c in hq.calls(b["body"], fn)]
        got = []
        pat_variants_ = __import__("rules.facts", fromlist=["pat_variants"]).pat_variants
        for bb in fx.body_list:
            mine = hq.calls(bb["body"], fn)
            if not mine:
                continue
            pm = hq.parent_map(bb["body"])
            for c in mine:
                # the operator argument, by type (its position is the signature's business)
                opi = [i_ for i_, a_ in enumerate(c["args"]) if "BinaryOperator" in str(a_.get("ty", "")) or "BinaryOperator" in str(strip(a_).get("ty", ""))]
                if len(opi) != 1:
                    got.append(None)
                    continue
                opi = opi[0]
                k = hq.const_of(c["args"][opi])
                if k and k[0] == "variant":
                    got.append(k[2])
                    continue
                # the operator handed on is the one an enclosing `match op { A | B => f(.., op) }` has just matched: one value per alternative
                want_src = hq.render(strip(c["args"][opi])).lstrip("*&")
                cur, alts = c, None
                for _ in range(40):
                    par = pm.get(id(cur))
                    if par is None:
                        break
                    if par.get("k") == "Match" and hq.render(strip(par["scrut"])).lstrip("*&") == want_src:
                        arm = [a for a in par["arms"] if a is cur or a["body"] is cur or any(x is cur for x in walk(a["body"]))]
                        if arm:
                            alts = sorted({v for q in hq.or_alternatives(arm[0]["pat"]) for _, v in pat_variants_(q)})
                        break
                    cur = par
                got += alts if alts else [None]
        b = fx.fn(fn)
        handled = set()
        for m in hq.matches_over(b["body"], "syntax_tree::asp::mini_gringo::BinaryOperator"):
            for a in m["arms"]:
                if not (strip(a["body"]).get("ty") == "!" or a["body"].get("ty") == "!"):
                    handled |= {v for _, v in (x for q in hq.or_alternatives(a["pat"]) for x in __import__("rules.facts", fromlist=["pat_variants"]).pat_variants(q))}
        takes_op = any("mini_gringo::BinaryOperator" in str(q_.get("ty", "")) for q_ in b.get("params", []))
        has_panic = bool(hq.matches_over(b["body"], "syntax_tree::asp::mini_gringo::BinaryOperator"))
        if not takes_op and not has_panic and bool(cs):
            # the operator parameter got a type of its own that admits only the handled operations: no catch-all arm, nothing to discharge
            ctx.ok("PANIC-CONSTARG", hq.last(fn) + ":binop", ctx.site(b), "the function no longer takes or matches an asp::BinaryOperator: its operator type admits only the handled operations, there is no catch-all arm to discharge", nontrivial=False)
            continue
        ctx.add("PANIC-CONSTARG", hq.last(fn) + ":binop", bool(cs) and all(g in handled and g in allowed for g in got), ctx.site(b),
                "all %d call sites pass a literal operator %s, handled set %s" % (len(cs), got, sorted(handled - {"*"})))
    # CONSTARG: z is never symbol-sorted: every fol::Variable literal in tau_star.rs has a literal General / Integer sort
    sorts = collections.Counter()
    for b in fx.fns_in_file("src/translating/formula_representation/tau_star.rs"):
        for n in walk(b["body"]):
            if n.get("k") == "Struct" and n.get("res", {}).get("adt", "").endswith("fol::sigma_0::Variable"):
                f = {ff["name"]: ff["e"] for ff in n["fields"]}
                k = hq.const_of(f.get("sort", {"k": "?"}))
                sorts[k[2] if k and k[0] == "variant" else "non-literal"] += 1
    ctx.add("PANIC-CONSTARG", "tau_star:variable-sorts", set(sorts) <= {"General", "Integer"} and sum(sorts.values()) >= 10, "src/translating/formula_representation/tau_star.rs",
            "every fol::Variable built in tau_star.rs has a literal sort: %s" % dict(sorts))
    callers = sorted({b["def_path"] for b in fx.body_list for fn in ("tau_star::val", "tau_star::construct_equality_formula", "tau_star::construct_interval_formula") for c in hq.calls(b["body"], fn)})
    ctx.add("PANIC-CONSTARG", "tau_star:val-callers", all(TS in c or c.startswith(TS) for c in callers), "", "val / construct_* are called only inside tau_star.rs: %s" % [hq.last(c) for c in callers])
    # construct_equality_formula is called in the arm PrecomputedTerm | Variable with the matched term
    ce = [c for c in hq.calls(val["body"], "tau_star::construct_equality_formula")]
    ok = False
    for m in hq.matches_over(val["body"], "syntax_tree::asp::mini_gringo::Term"):
        for a in m["arms"]:
            if ce and hq.contains(a["body"], ce[0]):
                ok = sorted(hq.pat_key(q) for q in hq.or_alternatives(a["pat"])) == ["Term::PrecomputedTerm(_)", "Term::Variable(_)"] and local_of(ce[0]["args"][0]) == local_of(m["scrut"])
    ctx.add("PANIC-CONSTARG", "construct_equality_formula:term-kind", ok and len(ce) == 1, ctx.site(val), "called once, in the arm `PrecomputedTerm(_) | Variable(_)`, with the matched term")
    # ARITY: literal arity arguments of choose_fresh_variable_names and what is taken from the result
    n = 0
    for b in fx.body_list:
        if b["body"].get("mac", "").startswith("#"):
            continue
        lets = hq.let_by_id(b["body"])
        for c in walk(b["body"]):
            if c.get("k") != "Call" or not (callee(c) or "").endswith("choose_fresh_variable_names"):
                continue
            ar = strip(c["args"][2])
            lit = ar.get("v") if ar.get("k") == "Lit" else None
            pm = hq.parent_map(b["body"])
            par = pm.get(id(c))
            # direct .pop().unwrap()
            if par is not None and par.get("k") == "MethodCall" and par["method"] == "pop":
                n += 1
                ctx.add("PANIC-ARITY", "%s:pop#%d" % (hq.last(b["def_path"], 2), n), lit == 1, ctx.site(b, c), "pop().unwrap() on choose_fresh_variable_names(.., %s)" % lit)
            elif par is not None and par.get("k") == "LetStmt":
                vid = par["pat"].get("id")
                pops = [u for u in walk(b["body"]) if u.get("k") == "MethodCall" and u["method"] == "pop" and hq.local_id_of(u["recv"]) == vid] if hasattr(hq, "local_id_of") else []
                idx = [u for u in walk(b["body"]) if u.get("k") == "Index" and __import__("rules.facts", fromlist=["local_id_of"]).local_id_of(u["e"]) == vid]
                lits = [strip(u["idx"]).get("v") for u in idx if strip(u["idx"]).get("k") == "Lit"]
                for u in [x for x in walk(b["body"]) if x.get("k") == "MethodCall" and x["method"] == "pop" and __import__("rules.facts", fromlist=["local_id_of"]).local_id_of(x["recv"]) == vid]:
                    n += 1
                    ctx.add("PANIC-ARITY", "%s:pop#%d" % (hq.last(b["def_path"], 2), n), lit == 1, ctx.site(b, u), "pop().unwrap() on choose_fresh_variable_names(.., %s)" % lit)
                if lits:
                    n += 1
                    ctx.add("PANIC-ARITY", "%s:index#%d" % (hq.last(b["def_path"], 2), n), lit is not None and all(isinstance(x, int) and x < lit for x in lits), ctx.site(b, c),
                            "constant indices %s into choose_fresh_variable_names(.., %s)" % (lits, lit))
    ctx.floor("PANIC-ARITY", "arity_sites", n, 1)
    cf = fx.fn("tau_star::choose_fresh_variable_names")
    v = sym.Eval(fx, inline_depth=0).function(cf)
    r = repr(v)
    from ..facts import local_id_of as _lid
    count_ids = {q_["id"] for q_ in cf["params"] if q_.get("p") == "Bind" and str(q_.get("ty", "")).endswith("usize")}
    count_names = {q_["name"] for q_ in cf["params"] if q_.get("p") == "Bind" and str(q_.get("ty", "")).endswith("usize")}
    plus_one = any(n_.get("k") == "Binary" and n_.get("op") == "Add" and ((_lid(n_["l"]) in count_ids and strip(n_["r"]).get("v") == 1) or (_lid(n_["r"]) in count_ids and strip(n_["l"]).get("v") == 1))
                   for n_ in walk(cf["body"]))
    first = v[1][0][0] if v[0] == "returns" and v[1] and v[1][0][0] != ("fallthrough",) else ()
    ok = len(first) == 1 and first[0][1] is True and first[0][0][:2] == ("bin", "Lt") and first[0][0][2][:1] == ("param",) and first[0][0][2][1] in count_names and first[0][0][3] == ("lit", 1) and plus_one
    ctx.add("PANIC-ARITY", "choose_fresh_variable_names:length", ok, ctx.site(cf),
            "returns no name for arity < 1, else `variant` (if free) plus indexed names up to the bound arity resp. arity + 1: exactly `arity` names")
    # DISPATCH: tau_star_rule
    tr = fx.fn("tau_star::tau_star_rule")
    v = sym.Eval(fx, inline_depth=0).function(tr)
    # decided as in C01 (DISPATCH:tau_star_rule): on a present / absent head predicate and head arities 0, 1, 3
    from . import c01 as _c01
    sub_ = type(ctx)(ctx.prop, ctx.tier, ctx.facts)
    _c01.rule_tau_star(sub_)
    disp_ = [o_ for o_ in sub_.obls if o_["key"] == "DISPATCH:tau_star_rule"]
    ref = v if (len(disp_) == 1 and disp_[0]["status"] == "discharged") else None
    ctx.add("PANIC-CONSTARG", "tau_star_rule:dispatch", v == ref, ctx.site(tr), "head rules are built only for heads with a predicate (Basic / Choice), first-order ones only for arity > 0", construct=v)
    hp = fx.fn("mini_gringo::Head::predicate")
    v = sym.Eval(fx, inline_depth=0).function(hp)
    d = {a[0]: a[-1][1] for a in v[2]} if v[0] == "match" else {}
    ctx.add("PANIC-CONSTARG", "Head::predicate", d == {"Head::Basic(_)": "Option::Some", "Head::Choice(_)": "Option::Some", "Head::Falsity": "Option::None"}, ctx.site(hp), "predicate() is None exactly for Falsity: %s" % d)
    callers = sorted({hq.last(b["def_path"]) for b in fx.body_list for fn in ("tau_star::tau_star_fo_head_rule", "tau_star::tau_star_prop_head_rule") for c in hq.calls(b["body"], fn)})
    ctx.add("PANIC-CONSTARG", "head-rule-callers", callers == ["tau_star_rule"], "", "the head rule constructors are called only by tau_star_rule: %s" % callers)
    # globals long enough: both callers of tau_star_rule compute globals from the program whose rules they iterate
    from .. import ftpl as _ftpl
    ok = True
    detail = []
    for b in fx.body_list:
        if "::tests::" in b["def_path"] or not hq.calls(b["body"], "tau_star::tau_star_rule"):
            continue
        v = _ftpl.canon_closures(_ftpl.canon_iter(sym.Eval(fx, inline_depth=0).function(b)))
        calls_ = [x for x in sym.subterms(v) if isinstance(x, tuple) and x[:2] == ("call", "tau_star::tau_star_rule") and len(x[2]) == 2]
        good = bool(calls_)
        roots = set()
        for c_ in calls_:
            r_, g_ = c_[2]
            # the rule: the current element of <program>.rules;  the globals: choose_fresh_global_variables(<program>)
            rr = r_[1][1].split(".")[0] if r_[0] == "at" and r_[1][0] == "place" and r_[1][1].endswith(".rules") else None
            gr = None
            if g_[:2] == ("call", "tau_star::choose_fresh_global_variables") and g_[2][0][0] in ("param", "place"):
                gr = g_[2][0][1].split(".")[0]
            roots.add((rr, gr))
            good = good and rr is not None and rr == gr
        ok = ok and good
        detail.append((hq.last(b["def_path"], 2), sorted(roots, key=repr)))
    ctx.add("PANIC-ARITY", "globals-cover-program", ok and len(detail) == 2, "", "globals are computed from the same program whose rules are translated (max head arity covers every rule): %s" % detail)
    # DOM: printers' first-term unwrap
    for which, ty in (("asp", "Atom"), ("fol", "Atom"), ("tptp", "Atom")):
        from .. import printers
        b = printers.display_impl(fx, which, ty)
        p = printers.evaluate(fx, b)
        w = [o for o in p.out if o[2][0] == "write" and "Option::unwrap" in repr(o[2][2])]
        ok = len(w) == 1 and w[0][0] and w[0][0][0] == (("op", "Not", ("call", "Vec::is_empty", (("place", "self.0.terms"),))), True)
        if not w and not [n for n in walk(b["body"]) if n.get("k") == "MethodCall" and n.get("method") in ("unwrap", "expect")]:
            ok = True      # no unwrap left to guard (the first term is taken apart without one, e.g. `split_first`)
        ctx.add("PANIC-DOM", "printer-first-term:" + which, ok, ctx.site(b), "iter.next().unwrap() happens only under !terms.is_empty() (or there is no unwrap at all)")
    # PREC: atomic precedence differs from every operator precedence (fol default formatter)
    from .. import prec
    m = prec.Model(fx, "fol", "Formula")
    kinds = prec.formula_kinds(fx)
    rows = {k: peval_prec(m, v) for k, v in kinds.items()}
    at = {rows[k] for k in rows if k in ("truth", "falsity", "atom", "comparison1", "comparison2")}
    op = {rows[k] for k in rows if k not in ("truth", "falsity", "atom", "comparison1", "comparison2")}
    ctx.add("PANIC-DOM", "associativity-of-atomic", not (at & op), ctx.site(m.prec), "atomic formulas have precedence %s, operators %s: the `==` that guards associativity() is false for atomic operands" % (sorted(at), sorted(op)))
    from .. import peval
    ipm = prec.Model(fx, "fol", "IntegerTerm")
    # replacement_helper callers
    cs = [(b, c) for b in fx.body_list for c in hq.calls(b["body"], "unstable::replacement_helper")]
    ok = len(cs) == 2 and all(local_of(c["args"][3]) == "formula" and hq.last(b["def_path"]) == "restrict_quantifier_domain" for b, c in cs)
    ctx.add("PANIC-CONSTARG", "replacement_helper:callers", ok, "", "replacement_helper is called twice by restrict_quantifier_domain with the formula it matched as quantified")
    # warning construction
    w = [hq.pat_key(a["pat"]) for b in fx.body_list for m_ in hq.matches_over(b["body"], "syntax_tree::fol::sigma_0::Direction") for a in m_["arms"]
         if "InconsistentDirectionAnnotation" in repr(hq.render(a["body"])) or any(n.get("k") == "Call" and (ctor_of(n) or ("", ""))[1] == "InconsistentDirectionAnnotation" for n in walk(a["body"]))]
    ctx.add("PANIC-CONSTARG", "warning:direction", sorted(w) == ["Direction::Backward", "Direction::Forward"], "", "InconsistentDirectionAnnotation is built only for Forward / Backward formulas: %s" % w)


def peval_prec(m, v):
    from .. import peval
    p = peval.eval_table_fn(m.prec, v)
    return p[1] if p[0] == "lit" else None


def rule_parse_assert(ctx):
    """Parser::parse asserts that the parsed pairs span the input.  That assertion is discharged by the `_eoi` entry rules only if the text
    handed to pest is the very text the assertion compares with."""
    fx = ctx.facts
    b = fx.fn("<T as parsing::Parser>::parse")

    def root(e):
        e = strip(e)
        while e.get("k") in ("MethodCall", "Field", "Ref", "Unary", "AddrOf") and (e.get("recv") or e.get("e")):
            e = strip(e.get("recv") or e.get("e"))
        r = e.get("res", {}) if e.get("k") == "Path" else {}
        return (r.get("name"), r.get("id")) if r.get("r") == "local" else None
    parses = [c for c in hq.calls(b["body"], "Parser::parse") if len(c.get("args", [])) == 2]
    asserts = [n for n in walk(b["body"]) if n.get("mac") == "assert_eq" and n.get("k") == "Match" and strip(n["scrut"]).get("k") == "Tup"]
    ok = len(parses) == 1 and len(asserts) == 1
    why = "one pest parse call and one assert_eq expected (found %d / %d)" % (len(parses), len(asserts))
    if ok:
        text = root(parses[0]["args"][1])
        ops = [root(e) for e in strip(asserts[0]["scrut"])["es"]]
        params = {p_.get("name") for p_ in b["params"]}
        ok = text is not None and text in ops and text[0] in params
        why = "pest parses `%s`; the assertion compares %s; `%s` is the unmodified parameter: %s" % (text and text[0], [o and o[0] for o in ops], text and text[0], bool(text and text[0] in params))
    ctx.add("PANIC-EOI", "parse:assert-same-text", ok, ctx.site(b), why)


def rule_eoi_gcov(ctx):
    fx = ctx.facts
    n_parsers = 0
    for which in ("asp", "fol"):
        g = grammar.load(fx, which)
        pt = gcov.pratt_tables(fx, which)
        it = gcov.Interp(fx, g, which, pt)
        work = []
        for name, b in sorted(it.parsers.items()):
            n_parsers += 1
            rc = [x for x in fx.body_list if x["name"] == "RULE" and x.get("impl", {}).get("self_ty") == b["impl"]["self_ty"]]
            if len(rc) != 1:
                ctx.gap("PANIC-EOI", "%s:%s" % (which, name), ctx.site(b), "RULE constant not found")
                continue
            rs = [n for n in walk(rc[0]["body"]) if n.get("k") == "Path" and n.get("res", {}).get("r") == "ctor"]
            rule = rs[0]["res"]["variant"] if rs else None
            if rule not in g.rules:
                ctx.bad("PANIC-EOI", "%s:%s" % (which, name), ctx.site(b), "entry rule %s does not exist in the grammar" % rule)
                continue
            top = sorted(g.inner_words(rule)) if g.is_silent(rule) else [(rule,)]
            good = g.is_silent(rule) and all(len(w) == 2 and w[1] == "EOI" for w in top)
            inner = sorted({w[0] for w in top if len(w) == 2})
            ctx.add("PANIC-EOI", "%s:%s" % (which, name), good and len(inner) >= 1, ctx.site(rc[0]),
                    "entry rule `%s` %s: Parser::parse drops the last pair as EOI and asserts that the pairs span the input" % (
                        rule, "is `_{ %s ~ EOI }`" % "|".join(inner) if good and inner else "is not of the form `_{ X ~ EOI }` (pairs: %s)" % top),
                    construct={"rule": rule, "pairs": top})
            if good:
                for r_ in inner:
                    work.append((name, r_))
        seen = set()
        findings = []
        while work:
            item = work.pop()
            if item in seen:
                continue
            seen.add(item)
            for w, kind, detail in it.run_parser(*item):
                findings.append((item, w, kind, detail))
            for rq in list(it.requirements):
                if rq not in seen:
                    work.append(rq)
        ctx.count("gcov_%s_obligations" % which, len(seen))
        ctx.count("gcov_%s_steps" % which, it.steps)
        bad = {}
        for (parser, rule), w, kind, detail in findings:
            bad.setdefault((parser, rule), []).append((w, kind, detail))
        for (parser, rule) in sorted(seen):
            f = bad.get((parser, rule))
            ctx.add("PANIC-GCOV", "%s:%s(%s)" % (which, parser, rule), not f, ctx.site(it.parsers[parser]) if parser in it.parsers else "",
                    "translate_pair of %s is panic-free on every child sequence of rule `%s` (%d sequences)" % (parser, rule, len(g.inner_words(rule)) if rule != "EOI" else 1) if not f else
                    "%s on a `%s` pair with children %s: %s (%s)" % (parser, rule, f[0][0], f[0][1], f[0][2]), construct=f[:3] if f else None)
        for (parser, rule, ty) in sorted(set(it.num_parse_unwrap)):
            ctx.bad("PANIC-NUM", "%s:%s(%s)" % (which, parser, rule), ctx.site(it.parsers[parser]),
                    "text of a `%s` pair is converted with parse::<%s>().unwrap(); the grammar does not bound the number of digits, so a long numeral panics" % (
                        rule, re.sub(r".*Result<(\w+),.*", r"\1", ty)))
        # the conversion sites above can only fail by overflow (the known finding) if the converted text is a decimal numeral of the target's sign
        from .. import regular as R
        for (parser, rule, ty, text_rule) in sorted(set(it.num_parse_text), key=repr):
            target = re.sub(r".*Result<(\w+),.*", r"\1", ty)
            if text_rule is None or text_rule not in g.rules:
                ctx.gap("PANIC-NUMLANG", "%s:%s(%s)" % (which, parser, rule), ctx.site(it.parsers[parser]), "cannot tell which pair's text is converted to %s" % target)
                continue
            lang = R.rule_language(text_rule, g.rules)   # a non-atomic rule admits blanks and comments inside the pair's text
            digits = R.plus(R.cls(R.DIGIT))
            ref = digits if target.startswith("u") else R.seq(R.opt(R.lit("-")), digits)
            w = R.subset_witness(lang, ref)
            ctx.add("PANIC-NUMLANG", "%s:%s(%s)" % (which, parser, rule), w is None, ctx.site(it.parsers[parser]),
                    "the text of a `%s` pair is converted to %s: every string of that rule is a%s decimal numeral (counterexample: %r)" % (
                        text_rule, target, "n unsigned" if target.startswith("u") else " signed", w), construct={"rule": text_rule, "target": target})
    ctx.floor("PANIC-EOI", "parsers", n_parsers, 43)


def rule_flow_err(ctx):
    fx = ctx.facts
    m = fx.fn("command_line::procedures::main")
    pm = hq.parent_map(m["body"])
    n = 0
    for c in walk(m["body"]):
        if c.get("k") not in ("Call", "MethodCall") or not c.get("ty", "").startswith("std::result::Result<"):
            continue
        name = callee_generic(c) or ""
        if not any(x in name for x in ("Node::from_file", "Node::from_stdin", "Files::sort", "Task::decompose", "Problem::to_file", "Option::map_or_else", "Option::ok_or", "Context::context",
                                        "Option::unwrap_or_else")):
            continue
        if name.endswith(("Option::ok_or", "Context::context")):
            continue
        # the value must end in `?` (possibly through context / map adapters) or be the function result
        cur = c
        ok = hq.is_try_propagated(pm, c)
        n += 1
        ctx.add("FLOW-ERR", "main:%s#%d" % (hq.last(name, 2), n), ok, ctx.site(m, c), "fallible call %s is propagated with `?`" % hq.render(c)[:70])
    ctx.floor("FLOW-ERR", "main_fallible_calls", n, 3)
    # reading input: errors of read_to_string / parse carry context and are returned
    nd = fx.fn("Node::from_file")
    v = sym.Eval(fx, inline_depth=0).function(nd)
    ok = v[:2] == ("call", "Context::with_context") and "('try'" in repr(v) and "fs::read_to_string" in repr(v) and "str::parse" in repr(v)
    ctx.add("FLOW-ERR", "from_file", ok, ctx.site(nd), "from_file: read error and parse error are both turned into anyhow errors with context (no unwrap)")
    pr = [b for b in fx.body_list if b["def_path"] == "<T as parsing::Parser>::parse"]
    if len(pr) != 1:
        raise AnalysisGap("Parser::parse impl not found")
    pmm = hq.parent_map(pr[0]["body"])
    cs = [c for c in walk(pr[0]["body"]) if c.get("k") == "Call" and (callee_generic(c) or "").endswith("pest::Parser::parse")]
    ok_pe = len(cs) == 1 and hq.is_try_propagated(pmm, cs[0])
    if len(cs) == 1 and not ok_pe:
        # decided on the value: with the pest call answering Err(e) the function answers Err(..e..) - `?`, `map`, `and_then` or a match
        from .. import comp as _comp, leaves as _lv
        _comp.use(fx)
        pv = sym.Eval(fx, inline_depth=0).function(pr[0])
        pcs = sorted({x for x in sym.subterms(pv) if isinstance(x, tuple) and x[:1] == ("call",) and str(x[1]).endswith("Parser::parse")}, key=repr)
        if len(pcs) == 1:
            ERR = ("ctor", "Result::Err", (("0", ("param", "$e")),))
            dv = _comp.decide_literals(_comp.case_of_case(_lv.replace(pv, {pcs[0]: ERR})))
            dv = _comp.early_exit(dv) or dv
            ok_pe = isinstance(dv, tuple) and dv[:2] == ("ctor", "Result::Err") and "$e" in repr(dv) and "panic" not in repr(dv)
    ctx.add("FLOW-ERR", "pest-error", ok_pe, ctx.site(pr[0]), "a pest syntax error is returned as Err (propagated with `?`)")
    # main returns Result and the binary's main returns it
    bm = [b for b in fx.bin["bodies"] if b["name"] == "main"]
    reexport = "pub use command_line::procedures::main" in fx.read_source("src/lib.rs")
    ok = len(bm) == 1 and any((callee(n_) or "") in ("anthem::main", "anthem::command_line::procedures::main") for n_ in walk(bm[0]["body"]) if n_.get("k") == "Call") \
        and "Result" in bm[0].get("ret_ty", "") and reexport
    ctx.add("FLOW-ERR", "bin-main", ok, "src/main.rs", "the binary's main returns procedures::main()'s Result (non-zero exit status and message on Err)")


def rule_tab_valid(ctx):
    from . import c11
    sub = type(ctx)(ctx.prop, ctx.tier, ctx.facts)
    c11.rule_ensure_templates(sub)
    for o in sub.obls:
        if o["key"].startswith("TAB-VALID"):
            ctx.obls.append(o)


def rule_known_overflows(ctx):
    fx = ctx.facts
    b = fx.fn("tau_star::choose_fresh_global_variables")
    adds = [n for n in walk(b["body"]) if n.get("k") == "Binary" and n.get("op") == "Add" and "max_taken_var" in hq.render(n)]
    guarded = any(n.get("k") == "MethodCall" and n["method"] in ("checked_add", "saturating_add") for n in walk(b["body"]))
    ctx.add("PANIC-OVF", "global-variable-counter", not adds or guarded, ctx.site(b),
            "`max_taken_var + i` adds the numeric suffix of a variable name of the program (input-derived, up to usize::MAX) without a checked operation: "
            "`p(V18446744073709551615) :- q(V18446744073709551615).` overflows (panic in debug builds, wrap-around and possible capture in release builds)")
    t = printers_numeral(ctx)


def printers_numeral(ctx):
    from . import c06
    sub = type(ctx)(ctx.prop, ctx.tier, ctx.facts)
    c06.rule_tokens(sub)
    for o in sub.obls:
        if o["key"].startswith("NUM:"):
            o = dict(o)
            o["rule"] = "PANIC-OVF"
            o["key"] = "PANIC-OVF:tptp-numeral-abs"
            ctx.obls.append(o)


RULES = [rule_sites, rule_structural_discharges, rule_eoi_gcov, rule_flow_err, rule_tab_valid, rule_known_overflows, rule_parse_assert]
