"""Obligations, known findings, reports, evidence."""
import hashlib
import json
import os
import re
import time

from . import facts as F

VERIF = F.VERIF
KNOWN = os.path.join(VERIF, "known_findings.json")


class Ctx:
    """Collects obligations for one property check."""

    def __init__(self, prop, tier, facts):
        self.prop = prop
        self.tier = tier
        self.facts = facts
        self.obls = []
        self.notes = []
        self.counters = {}
        self.rules_run = []
        self.selftest = None

    # status: discharged | violated | gap
    def add(self, rule, key, ok, site="", why="", construct=None, nontrivial=True):
        st = "discharged" if ok is True else ("gap" if ok is None else "violated")
        o = {"rule": rule, "key": "%s:%s" % (rule, key), "status": st, "site": site, "why": why,
             "nontrivial": bool(nontrivial)}
        if construct is not None:
            o["construct"] = _jsonable(construct)
        self.obls.append(o)
        return ok is True

    def ok(self, rule, key, site="", why="", construct=None, nontrivial=True):
        return self.add(rule, key, True, site, why, construct, nontrivial)

    def bad(self, rule, key, site="", why="", construct=None):
        return self.add(rule, key, False, site, why, construct)

    def gap(self, rule, key, site="", why=""):
        return self.add(rule, key, None, site, why)

    def count(self, name, n=1):
        self.counters[name] = self.counters.get(name, 0) + n

    def floor(self, rule, name, measured, floor):
        """A rule that matches fewer instances than were confirmed by hand must not pass vacuously."""
        self.counters[name] = measured
        self.add(rule, "floor:%s" % name, measured >= floor, why="instances found: %d, floor (counted on the pinned tree): %d" % (measured, floor),
                 nontrivial=False)

    def site(self, body, node=None):
        line = (node or {}).get("line") or body.get("line")
        return "%s:%s (%s)" % (body.get("file"), line, body.get("def_path"))


def _jsonable(x, depth=0):
    """terms handed over as `construct` may hold sets (unordered facts) or exotic keys: make them plain JSON, in a stable order"""
    if depth > 60:
        return repr(x)[:200]
    if isinstance(x, (frozenset, set)):
        return sorted((_jsonable(y, depth + 1) for y in x), key=repr)
    if isinstance(x, (tuple, list)):
        return [_jsonable(y, depth + 1) for y in x]
    if isinstance(x, dict):
        return {str(k): _jsonable(v, depth + 1) for k, v in x.items()}
    if isinstance(x, (str, int, float, bool)) or x is None:
        return x
    return repr(x)[:200]


def load_known():
    if not os.path.exists(KNOWN):
        return []
    with open(KNOWN) as fh:
        return json.load(fh)["findings"]


def safe_name(key):
    s = re.sub(r"[^A-Za-z0-9_.-]+", "_", key)[:80]
    return s + "-" + hashlib.sha1(key.encode()).hexdigest()[:8]


def finish(ctx, t0, explanation, undecided, assumptions, out=print):
    """Apply known findings, write reports + evidence, print the verdict lines.
    Returns the exit code."""
    prop = ctx.prop
    known = {k["key"]: k for k in load_known() if k["property"] == prop and k["status"] == "known"}
    OUT = os.environ.get("VERIF_OUT_DIR", VERIF)
    repdir = os.path.join(OUT, "reports", prop)
    os.makedirs(repdir, exist_ok=True)
    violations = []
    known_hit = []
    for o in ctx.obls:
        if o["status"] == "discharged":
            continue
        if o["status"] == "violated" and o["key"] in known:
            known_hit.append((o, known[o["key"]]))
            continue
        violations.append(o)
    # stale report files of earlier runs are removed so that a replay path is always current
    for f in os.listdir(repdir):
        if f.endswith(".json"):
            os.unlink(os.path.join(repdir, f))
    for o, k in known_hit:
        out("KNOWN-FINDING: property=%s %s [%s]" % (prop, k["what"], o["key"]))
    for o in violations:
        path = os.path.join(repdir, safe_name(o["key"]) + ".json")
        with open(path, "w") as fh:
            json.dump({"property": prop, "obligation": o, "tree": ctx.facts.hash if ctx.facts else None,
                       "repo": F.repo_dir()}, fh, indent=1)
        tag = "ANALYSIS-GAP" if o["status"] == "gap" else "violated"
        out("  %s %s at %s: %s" % (tag, o["key"], o["site"], o["why"]))
        out("VIOLATION property=%s replay=%s" % (prop, path))
    obls = ctx.obls
    n = len(obls)
    disc = sum(1 for o in obls if o["status"] == "discharged")
    distinct_nt = len({o["key"] for o in obls if o["nontrivial"]})
    samples = []
    seen_rules = set()
    for o in obls:
        if o["rule"] not in seen_rules and o["nontrivial"]:
            seen_rules.add(o["rule"])
            samples.append({k: o[k] for k in ("rule", "key", "status", "site", "why", "construct") if k in o})
    samples = samples[:40]
    cov = {
        "explanation": explanation,
        "obligations": n,
        "discharged": disc,
        "evaluations": n,
        "distinct_nontrivial": distinct_nt,
        "rule": "one obligation per (rule, instance) found in the extracted program facts; an obligation is "
                "non-trivial when its discharge needed more than the existence of its anchor (floors and anchor "
                "lookups are trivial); distinct = distinct instance keys",
        "samples": samples or [{"note": "no non-trivial obligation"}],
        "exhaustive": False,
        "rules": sorted({o["rule"] for o in obls}),
        "per_rule": {r: sum(1 for o in obls if o["rule"] == r) for r in sorted({o["rule"] for o in obls})},
        "counters": ctx.counters,
        "undecided_clauses": undecided,
        "known_findings": [{"key": o["key"], "what": k["what"]} for o, k in known_hit],
        "tree_hash": ctx.facts.hash if ctx.facts else None,
        "extracted": ctx.facts.counts() if ctx.facts else {},
        "trusted_base": ["rustc nightly front end (name resolution, type check, MIR construction)", "pest_meta grammar front end",
                         "the cited definitions in /verif/refs"],
        "checker_cmd": "./check %s --tier %s" % (prop, ctx.tier),
    }
    if ctx.selftest is not None:
        cov["selftest"] = ctx.selftest
    ev = {
        "property_id": prop,
        "tier": ctx.tier,
        "seed": int(os.environ.get("VERIF_SEED", "0") or 0),
        "level": "other",
        "coverage": cov,
        "assumptions": assumptions,
        "wall_s": round(time.time() - t0, 3),
        "violations": len(violations),
    }
    os.makedirs(os.path.join(OUT, "evidence"), exist_ok=True)
    with open(os.path.join(OUT, "evidence", prop + ".json"), "w") as fh:
        json.dump(ev, fh, indent=1)
    out("%s: %d obligations, %d discharged, %d known finding(s), %d violation(s) [tier=%s, tree=%s, %.1fs]" % (
        prop, n, disc, len(known_hit), len(violations), ctx.tier, ctx.facts.hash if ctx.facts else "-", time.time() - t0))
    return 1 if violations else 0
