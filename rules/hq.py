"""HIR query helpers shared by the rule engines."""
import json
import re

from .facts import (AnalysisGap, callee, callee_generic, ctor_of, local_of, pat_bindings,
                    pat_is_catch_all, pat_variants, short, strip, walk, walk_with_parents)

VARIANT = lambda adt, v: (adt, v)


def last(path, n=1):
    return "::".join(path.split("::")[-n:])


def is_adt(path, suffix):
    return path == suffix or path.endswith("::" + suffix)


def nodes(body, kind=None, pred=None):
    for n in walk(body):
        if kind is not None and n.get("k") != kind:
            continue
        if pred is not None and not pred(n):
            continue
        yield n


def calls(body, suffix=None, method=None):
    """Call / MethodCall nodes whose (resolved or generic) callee path ends with `suffix`."""
    out = []
    for n in walk(body):
        k = n.get("k")
        if k not in ("Call", "MethodCall"):
            continue
        if method is not None and not (k == "MethodCall" and n.get("method") == method):
            continue
        if suffix is not None:
            c1, c2 = callee(n), callee_generic(n)
            if not any(c and (c == suffix or c.endswith("::" + suffix) or c.endswith(suffix)) for c in (c1, c2)):
                continue
        out.append(n)
    return out


def fn_refs(body, suffix):
    """Every reference to a function (called or passed as a value): Path nodes with a callee."""
    out = []
    for n in walk(body):
        if n.get("k") == "Path" and "callee" in n:
            for c in (n.get("callee_res"), n.get("callee")):
                if c and (c == suffix or c.endswith("::" + suffix)):
                    out.append(n)
                    break
        elif n.get("k") == "MethodCall":
            for c in (n.get("callee_res"), n.get("callee")):
                if c and (c == suffix or c.endswith("::" + suffix)):
                    out.append(n)
                    break
    return out


def contains(node, target):
    return any(x is target for x in walk(node))


def parent_map(root):
    pm = {}
    for n, parents in walk_with_parents(root):
        if parents:
            pm[id(n)] = parents[-1]
    return pm


def ancestors(pm, n):
    cur = pm.get(id(n))
    while cur is not None:
        yield cur
        cur = pm.get(id(cur))


def is_try_propagated(pm, n):
    """True if expression n is the operand of `?` (possibly after map_err/ok_or/context adapters)."""
    cur = n
    for _ in range(24):
        p = pm.get(id(cur))
        if p is None:
            return False
        k = p.get("k")
        if k == "Call" and (callee_generic(p) or "").endswith("Try::branch"):
            gp = pm.get(id(p))
            return gp is not None and gp.get("k") == "Match" and gp.get("src", "").startswith("TryDesugar")
        if k == "MethodCall" and p.get("recv") is cur and p.get("method") in (
                "map_err", "ok_or", "ok_or_else", "context", "with_context", "map", "and_then", "or_else"):
            cur = p
            continue
        if k in ("DropTemps", "Use", "Type"):
            cur = p
            continue
        if k == "Block" and p.get("expr") is cur and "mac_src" not in p:
            cur = p   # the value of the block
            continue
        if k is None and "pat" in p and p.get("body") is cur:
            cur = p   # the value of a match arm ...
            continue
        if k == "Match" and p.get("src") == "Normal" and any(a is cur for a in p.get("arms", [])):
            cur = p   # ... is the value of the match
            continue
        if k == "Match" and p.get("src") == "Normal" and p.get("scrut") is cur:
            # `match x { Ok(v) => v, Err(e) => return Err(..) }` is `x?` written out: every arm that takes the error / the missing value leaves
            # with an Err / None
            bad_arms = [a for a in p.get("arms", []) if pat_key(a["pat"]).startswith(("Result::Err", "Option::None", "_"))]
            def leaves_with_error(body):
                b_ = strip(body)
                while b_.get("k") == "Block" and not b_.get("stmts") and isinstance(b_.get("expr"), dict) and "mac_src" not in b_:
                    b_ = strip(b_["expr"])
                if b_.get("k") != "Ret" or not isinstance(b_.get("e"), dict):
                    return False
                r_ = strip(b_["e"])
                c_ = ctor_of(r_) if r_.get("k") == "Call" else None
                return bool(c_ and c_[1] == "Err") or (r_.get("k") == "Path" and r_.get("res", {}).get("variant") == "None")
            return bool(bad_arms) and all(leaves_with_error(a["body"]) for a in bad_arms)
        if k == "If" and (p.get("then") is cur or p.get("else") is cur):
            cur = p
            continue
        if k in ("Call", "MethodCall") and p.get("inlined") is cur:
            cur = p   # the value of a helper body attached to its call site (facts._graft_helpers)
            continue
        return False
    return False


def match_arms(m):
    return m.get("arms", [])


def pat_key(p):
    """Canonical, position-free rendering of a pattern (resolved variants, literals, bindings as _)."""
    k = p.get("p")
    if k == "Wild":
        return "_"
    if k == "Bind":
        return pat_key(p["sub"]) if "sub" in p else "_"
    if k in ("Ref", "Box", "Deref"):
        return pat_key(p["pat"])
    if k == "Guard":
        return pat_key(p["pat"]) + " if .."
    if k == "Or":
        return " | ".join(sorted(pat_key(q) for q in p["pats"]))
    if k == "Lit":
        return json.dumps(p.get("v"))
    if k == "Path":
        r = p.get("res", {})
        return "%s::%s" % (last(r.get("adt", "?")), r.get("variant")) if r.get("r") == "ctor" else "?"
    if k == "TupleStruct":
        r = p.get("res", {})
        head = "%s::%s" % (last(r.get("adt", "?")), r.get("variant")) if r.get("variant") else last(r.get("adt", "?"))
        inner = ", ".join(pat_key(q) for q in p["pats"])
        return "%s(%s%s)" % (head, inner, ", .." if p.get("rest") and not p["pats"] else "")
    if k == "Struct":
        r = p.get("res", {})
        head = "%s::%s" % (last(r.get("adt", "?")), r.get("variant")) if r.get("variant") else last(r.get("adt", "?"))
        fs = ", ".join("%s: %s" % (f["name"], pat_key(f["pat"])) for f in sorted(p["fields"], key=lambda f: f["name"])
                       if pat_key(f["pat"]) != "_")
        return "%s{%s}" % (head, fs)
    if k == "Tuple":
        return "(" + ", ".join(pat_key(q) for q in p["pats"]) + ")"
    if k == "Slice":
        return "[..]"
    if k == "Range":
        return "%s..%s%s" % (p.get("lo", ""), "=" if p.get("end") == "Included" and "hi" in p else "", p.get("hi", ""))
    return "?" + str(k)


def or_alternatives(p):
    """Flatten top-level or-patterns (through binding @ / refs)."""
    k = p.get("p")
    if k == "Or":
        out = []
        for q in p["pats"]:
            out.extend(or_alternatives(q))
        return out
    if k == "Bind" and "sub" in p:
        return or_alternatives(p["sub"])
    if k in ("Ref", "Box", "Deref"):
        return or_alternatives(p["pat"])
    return [p]


def const_of(e):
    """The constant an arm body evaluates to: a variant ('Adt::Variant'), a string literal, a bool/int,
    or the template of a write!/format! macro.  None if not a constant."""
    e0 = e
    e = strip(e)
    k = e.get("k")
    if k == "Lit":
        return ("lit", e.get("v"))
    c = ctor_of(e)
    if c is not None and k == "Path":
        return ("variant", last(c[0]), c[1])
    if k == "Call" and c is not None:
        # tuple-variant around constants: Adt::V(const..)
        inner = [const_of(a) for a in e["args"]]
        if all(i is not None for i in inner):
            return ("variant", last(c[0]), c[1], tuple(inner))
        return None
    m = macro_call(e0) or macro_call(e)
    if m and m[0] in ("write", "writeln", "format", "print", "println"):
        t = macro_template(m[1])
        if t is not None:
            return ("template", m[0], t)
    if k == "Block" and not e.get("stmts") and "expr" in e:
        return const_of(e["expr"])
    return None


def macro_call(e):
    """(macro name, callsite source) if e is the root of a macro expansion."""
    if "mac_src" in e:
        return (e.get("mac"), e["mac_src"])
    return None


_TEMPLATE = re.compile(r'^\s*\w+!\s*\(\s*(?:[^,"]*,\s*)?(r?#*"(?:[^"\\]|\\.)*"#*)', re.S)


def macro_template(src):
    """The format-string literal of a write!/format!/println! call site (unescaped)."""
    m = _TEMPLATE.match(src)
    if not m:
        return None
    lit = m.group(1)
    if lit.startswith("r"):
        return lit[lit.index('"') + 1: lit.rindex('"')]
    try:
        return json.loads(lit.replace("\\\n", ""))
    except Exception:
        body = lit[1:-1]
        return body.replace('\\"', '"').replace("\\\\", "\\").replace("\\n", "\n")


def macro_args(src):
    """Top-level comma-separated arguments of a macro call site, as source strings."""
    i = src.index("(")
    depth = 0
    args, cur = [], []
    in_str = False
    esc = False
    for ch in src[i + 1:]:
        if in_str:
            cur.append(ch)
            if esc:
                esc = False
            elif ch == "\\":
                esc = True
            elif ch == '"':
                in_str = False
            continue
        if ch == '"':
            in_str = True
            cur.append(ch)
            continue
        if ch in "([{":
            depth += 1
        elif ch in ")]}":
            if depth == 0:
                break
            depth -= 1
        if ch == "," and depth == 0:
            args.append("".join(cur).strip())
            cur = []
        else:
            cur.append(ch)
    if "".join(cur).strip():
        args.append("".join(cur).strip())
    return args


def match_table(m, key=pat_key, value=const_of):
    """[(pattern key, constant | None, arm)] for a Match node, or-patterns expanded."""
    rows = []
    for a in match_arms(m):
        v = value(a["body"])
        for alt in or_alternatives(a["pat"]):
            rows.append((key(alt), v, a))
    return rows


def matches_over(body, adt_suffix):
    """Match expressions whose scrutinee type is the given ADT (through references)."""
    out = []
    for n in walk(body):
        if n.get("k") == "Match":
            t = n["scrut"].get("ty", "").lstrip("&").replace("mut ", "").strip()
            t = re.sub(r"^'\w+ ", "", t)
            if is_adt(t, adt_suffix):
                out.append(n)
                continue
            # a match on a tuple one component of which has the type: the same match seen through that component's patterns
            if t.startswith("(") and t.endswith(")"):
                parts = [re.sub(r"^'\w+ ", "", x.strip().lstrip("&").replace("mut ", "").strip()) for x in _split_top(t[1:-1])]
                for i, pt in enumerate(parts):
                    if is_adt(pt, adt_suffix):
                        arms = []
                        for a in n["arms"]:
                            q = a["pat"]
                            while q.get("p") in ("Ref", "Deref", "Box"):
                                q = q["pat"]
                            if q.get("p") == "Tuple" and len(q.get("pats", [])) == len(parts):
                                arms.append(dict(a, pat=q["pats"][i]))
                            else:
                                arms.append(dict(a, pat={"p": "Wild"}))
                        out.append(dict(n, arms=arms, projected=i))
    return out


def _split_top(s):
    """split a type list at top-level commas"""
    out, depth, cur = [], 0, ""
    for ch in s:
        if ch in "<([":
            depth += 1
        elif ch in ">)]":
            depth -= 1
        if ch == "," and depth == 0:
            out.append(cur)
            cur = ""
        else:
            cur += ch
    if cur.strip():
        out.append(cur)
    return out


def has_wildcard_arm(m):
    return any(pat_is_catch_all(a["pat"]) and "guard" not in a for a in match_arms(m))


def is_diverging(e):
    return e.get("ty") == "!" or strip(e).get("ty") == "!"


def panics_in(node):
    """Macro-rooted panic constructs under node: (kind, node)."""
    out = []
    for n in walk(node):
        if "mac_src" in n and n.get("mac") in ("unreachable", "panic", "todo", "unimplemented", "assert", "assert_eq", "assert_ne"):
            out.append((n["mac"], n))
    return out


def stmts_of(block):
    """Statements (and tail expr as a pseudo-statement) of a Block node / loop body dict."""
    out = list(block.get("stmts", []))
    if "expr" in block:
        out.append({"k": "Tail", "e": block["expr"], "line": block["expr"].get("line")})
    return out


def stmt_expr(s):
    if s["k"] == "LetStmt":
        return s.get("init")
    return s.get("e")


def for_loops(body):
    """Desugared `for` loops: (loop_match_node, iterable_expr, pattern, body_expr)."""
    out = []
    for n in walk(body):
        if n.get("k") == "Match" and n.get("src") == "ForLoopDesugar":
            it = n["scrut"]
            if not (it.get("k") == "Call" and (callee_generic(it) or "").endswith("IntoIterator::into_iter")):
                continue
            # scrutinee: IntoIterator::into_iter(<iterable>)
            iterable = it["args"][0] if it.get("k") == "Call" and it.get("args") else it
            loop = n["arms"][0]["body"]
            pat = body_e = None
            for m in walk(loop):
                if m.get("k") == "Match" and m is not n and m.get("src") == "ForLoopDesugar":
                    for a in m["arms"]:
                        ap = a["pat"]
                        if ap.get("res", {}).get("variant") == "Some":
                            if ap.get("p") == "TupleStruct":
                                pat = ap["pats"][0]
                            elif ap.get("p") == "Struct" and ap["fields"]:
                                pat = ap["fields"][0]["pat"]
                            body_e = a["body"]
                    break
            out.append((n, iterable, pat, body_e))
    return out


def method_chain(e):
    """For a.f(x).g(y) return (root_expr, [call nodes in application order])."""
    chain = []
    cur = e
    while True:
        s = cur
        if s.get("k") in ("DropTemps", "Use", "Type"):
            cur = s["e"]
            continue
        if s.get("k") == "MethodCall":
            chain.append(s)
            cur = s["recv"]
            continue
        if s.get("k") == "Ref":
            cur = s["e"]
            continue
        break
    chain.reverse()
    return cur, chain


def field_path(e):
    """'self.a.b' for nested Field accesses on a local; None otherwise."""
    parts = []
    cur = strip(e)
    while cur.get("k") == "Field":
        parts.append(cur["name"])
        cur = strip(cur["e"])
    l = local_of(cur)
    if l is None:
        return None
    parts.append(l)
    return ".".join(reversed(parts))


def lets(body):
    """name -> list of LetStmt nodes binding a plain local of that name."""
    out = {}
    for n in walk(body):
        if n.get("k") == "LetStmt" and n["pat"].get("p") == "Bind":
            out.setdefault(n["pat"]["name"], []).append(n)
    return out


def let_by_id(body):
    out = {}
    for n in walk(body):
        if n.get("k") == "LetStmt" and n["pat"].get("p") == "Bind":
            out[n["pat"]["id"]] = n
    return out


def walk_through_locals(body, e, stop=()):
    """walk(e), continued into the initialisers of the `let`-bound locals it mentions (transitively): the nodes that can contribute to the
    value of e when its sub-expressions were first given names.  Locals whose id is in `stop` are not followed."""
    lets = {}
    for n in walk(body):
        if n.get("k") == "LetStmt" and "init" in n:
            for b in pat_bindings(n["pat"]):
                lets[b["id"]] = n
    seen = set()
    todo = [e]
    while todo:
        cur = todo.pop()
        for n in walk(cur):
            yield n
            if n.get("k") == "Path" and n.get("res", {}).get("r") == "local":
                lid = n["res"]["id"]
                if lid in lets and lid not in seen and lid not in stop:
                    seen.add(lid)
                    todo.append(lets[lid]["init"])
                    if "else" in lets[lid]:
                        todo.append(lets[lid]["else"])


def assigns_to(body, local_id):
    out = []
    for n in walk(body):
        if n.get("k") in ("Assign", "AssignOp"):
            l = strip(n["l"])
            if l.get("k") == "Path" and l.get("res", {}).get("r") == "local" and l["res"]["id"] == local_id:
                out.append(n)
    return out


def uses_of(body, local_id):
    return [n for n in walk(body) if n.get("k") == "Path" and n.get("res", {}).get("r") == "local" and n["res"]["id"] == local_id]


def string_lits(node):
    return [n.get("v") for n in walk(node) if n.get("k") == "Lit" and isinstance(n.get("v"), str)]


def render(e, depth=0):
    """Compact, position-free rendering of an expression for messages and evidence samples."""
    if depth > 6:
        return ".."
    e = strip(e) if isinstance(e, dict) else e
    k = e.get("k")
    if k == "Lit":
        return json.dumps(e.get("v"))
    if k == "Path":
        r = e.get("res", {})
        if r.get("r") == "local":
            return r["name"]
        if r.get("r") == "ctor":
            return "%s::%s" % (last(r["adt"]), r.get("variant")) if r.get("variant") else last(r["adt"])
        return last(r.get("path", "?"), 2)
    if k == "Field":
        return "%s.%s" % (render(e["e"], depth + 1), e["name"])
    if k == "MethodCall":
        return "%s.%s(%s)" % (render(e["recv"], depth + 1), e["method"], ", ".join(render(a, depth + 1) for a in e["args"]))
    if k == "Call":
        c = ctor_of(e)
        head = ("%s::%s" % (last(c[0]), c[1]) if c[1] else last(c[0])) if c else last(callee_generic(e) or "?", 2)
        return "%s(%s)" % (head, ", ".join(render(a, depth + 1) for a in e["args"]))
    if k == "Struct":
        r = e.get("res", {})
        head = "%s::%s" % (last(r.get("adt", "?")), r.get("variant")) if r.get("variant") else last(r.get("adt", "?"))
        return "%s{%s}" % (head, ", ".join("%s: %s" % (f["name"], render(f["e"], depth + 1)) for f in e["fields"]))
    if k == "Closure":
        return "|..| " + render(e["body"], depth + 1)
    if k == "Unary":
        return "%s(%s)" % (e["op"], render(e["e"], depth + 1))
    if k == "Binary":
        return "(%s %s %s)" % (render(e["l"], depth + 1), e["op"], render(e["r"], depth + 1))
    if k == "Match":
        return "match %s {..%d arms}" % (render(e["scrut"], depth + 1), len(e["arms"]))
    if k == "If":
        return "if %s {..}" % render(e["cond"], depth + 1)
    if k == "Block":
        if "mac_src" in e:
            return e["mac_src"][:60]
        return "{..}"
    if "mac_src" in e:
        return e["mac_src"][:60]
    return "<%s>" % k


# ------------------------------------------------------------------ locals by role (so that renaming a local changes nothing)
def _root_local(e):
    e = strip(e)
    while e.get("k") in ("Field", "Index", "MethodCall"):
        e = strip(e["e"] if e.get("k") in ("Field", "Index") else e["recv"])
    return e if e.get("k") == "Path" and e.get("res", {}).get("r") == "local" else None


def local_name_of_arg(body, callee_suffix, idx, default=None):
    """name of the local handed (possibly borrowed / cloned / through a field) as argument #idx to the unique call of a function"""
    cs = calls(body, callee_suffix)
    if len(cs) != 1:
        return default
    c = cs[0]
    args = ([c["recv"]] + list(c.get("args", []))) if c.get("k") == "MethodCall" else list(c.get("args", []))
    if idx >= len(args):
        return default
    r = _root_local(args[idx])
    return (local_of(r) or default) if r is not None else default


def local_name_of_field(body, adt_last, field, default=None):
    """name of the local a field of the unique struct literal of that type is initialised from"""
    sts = [n for n in nodes(body, "Struct") if last(n.get("res", {}).get("adt", "")) == adt_last]
    if len(sts) != 1:
        return default
    for f in sts[0]["fields"]:
        if f["name"] == field:
            r = _root_local(f["e"])
            return (local_of(r) or default) if r is not None else default
    return default


def local_name_of_let_with_call(body, callee_suffix, default=None):
    """name of the local bound by the `let` whose initialiser contains the unique call of a function"""
    for n in walk(body):
        if n.get("k") == "LetStmt" and "init" in n and n["pat"].get("p") == "Bind" and calls(n["init"], callee_suffix):
            return n["pat"].get("name", default)
    return default
