"""Call graph over the extracted MIR of the anthem lib crate (closures included; trait calls that cannot be resolved statically
are over-approximated by every impl of the trait method in the crate)."""
import re

from .facts import AnalysisGap


class CallGraph:
    def __init__(self, fx):
        self.fx = fx
        self.mir = {m["def_path"]: m for m in fx.lib["mir"]}
        self.bodies = {b["def_path"]: b for b in fx.body_list}
        # trait method def path -> impl bodies
        self.impls_of = {}
        for b in fx.body_list:
            imp = b.get("impl", {})
            if "trait_def" in imp:
                self.impls_of.setdefault("%s::%s" % (imp["trait_def"], b["name"]), []).append(b["def_path"])
        # default methods of local traits are bodies too (e.g. PestParser::translate_pairs)
        self.edges = {}
        self.ext_calls = {}   # def_path -> list of (callee, line, block)
        self.unresolved = {}
        for dp, m in self.mir.items():
            out = set()
            ext = []
            for bl in m["blocks"]:
                t = bl["term"]
                if t.get("t") not in ("Call", "TailCall"):
                    continue
                if bl.get("cleanup"):
                    continue
                res = t.get("callee_res")
                gen = t.get("callee")
                targets = []
                if res and res in self.mir:
                    targets = [res]
                elif gen and gen in self.mir and not self._is_trait_decl(gen):
                    targets = [gen]
                elif res and res != gen and not res.startswith("<T as ") and not res.startswith("<I as ") and gen not in self.mir and res not in self.impls_of:
                    targets = []  # resolved to a specific function outside the crate
                elif gen and gen in self.impls_of:
                    # unresolved / virtual trait call: all impls (+ the provided default, if any)
                    targets = list(self.impls_of[gen]) + ([gen] if gen in self.mir else [])
                    self.unresolved.setdefault(dp, []).append(gen)
                elif gen and gen in self.mir:
                    targets = [gen]
                if targets:
                    out.update(targets)
                else:
                    ext.append((res or gen or t.get("callee_ty") or "?indirect", t.get("line"), bl["id"], t.get("exp", False)))
            self.edges[dp] = out
            self.ext_calls[dp] = ext
        # closures are reachable from the function that creates them
        for dp, m in self.mir.items():
            if m.get("kind") == "Closure":
                par = m.get("parent")
                if par in self.edges:
                    self.edges[par].add(dp)
        # lazy_static initialisers and consts referenced: treat static initialiser fns as reachable from users (by name)

    def _is_trait_decl(self, path):
        b = self.bodies.get(path)
        return b is not None and "impl" not in b

    def reachable(self, roots):
        seen = set()
        todo = [r for r in roots if r in self.edges]
        parent = {}
        while todo:
            x = todo.pop()
            if x in seen:
                continue
            seen.add(x)
            for y in self.edges.get(x, ()):
                if y not in seen:
                    parent.setdefault(y, x)
                    todo.append(y)
        self.parent = parent
        return seen

    def path_to(self, node, roots):
        p = [node]
        while p[-1] in self.parent and p[-1] not in roots:
            p.append(self.parent[p[-1]])
        return list(reversed(p))

    def find(self, pred):
        return [dp for dp in self.mir if pred(dp)]
