"""Call graph over the extracted MIR of the anthem lib crate (closures included; trait calls that cannot be resolved statically
are over-approximated by every impl of the trait method in the crate)."""
import re

from .facts import AnalysisGap


class CallGraph:
    def __init__(self, fx):
        self.fx = fx
        self.mir = {m["def_path"]: m for m in fx.lib["mir"]}
        self.bodies = {b["def_path"]: b for b in fx.body_list}
        # trait method def path -> impl bodies
        self.impls_of = {}
        for b in fx.body_list:
            imp = b.get("impl", {})
            if "trait_def" in imp:
                self.impls_of.setdefault("%s::%s" % (imp["trait_def"], b["name"]), []).append(b["def_path"])
        # default methods of local traits are bodies too (e.g. PestParser::translate_pairs)
        self.edges = {}
        self.ext_calls = {}   # def_path -> list of (callee, line, block)
        self.unresolved = {}
        for dp, m in self.mir.items():
            out = set()
            ext = []
            for bl in m["blocks"]:
                t = bl["term"]
                if t.get("t") not in ("Call", "TailCall"):
                    continue
                if bl.get("cleanup"):
                    continue
                res = t.get("callee_res")
                gen = t.get("callee")
                targets = []
                if res and res in self.mir:
                    targets = [res]
                elif gen and gen in self.mir and not self._is_trait_decl(gen):
                    targets = [gen]
                elif res and res != gen and not res.startswith("<T as ") and not res.startswith("<I as ") and gen not in self.mir and res not in self.impls_of:
                    targets = []  # resolved to a specific function outside the crate
                elif gen and gen in self.impls_of:
                    # unresolved / virtual trait call: all impls (+ the provided default, if any)
                    targets = list(self.impls_of[gen]) + ([gen] if gen in self.mir else [])
                    self.unresolved.setdefault(dp, []).append(gen)
                elif gen and gen in self.mir:
                    targets = [gen]
                if targets:
                    out.update(targets)
                else:
                    ext.append((res or gen or t.get("callee_ty") or "?indirect", t.get("line"), bl["id"], t.get("exp", False)))
            self.edges[dp] = out
            self.ext_calls[dp] = ext
        # function references in the typed HIR (functions passed as values, portfolio constants, statics): fn -> referenced fn
        from .facts import walk as _walk
        const_refs = {}
        for b in fx.body_list:
            refs = set()
            for n in _walk(b["body"]):
                if n.get("k") == "Path" and "callee" in n:
                    for c in (n.get("callee_res"), n.get("callee")):
                        if c in self.mir:
                            refs.add(c)
                            break
                        if c in self.impls_of:
                            refs.update(x for x in self.impls_of[c] if x in self.mir)
                            break
                elif n.get("k") == "Path" and n.get("res", {}).get("r") == "def" and n["res"].get("kind", "").startswith(("Const", "Static", "AssocConst")):
                    refs.add("const:" + n["res"]["path"])
            if b["kind"].startswith(("Const", "Static", "AssocConst")):
                const_refs[b["def_path"]] = refs
            elif b["def_path"] in self.edges:
                self.edges[b["def_path"]].update(r for r in refs if not r.startswith("const:"))
                self.edges[b["def_path"]].update(("const:" + r[6:]) for r in refs if r.startswith("const:"))
        # resolve const nodes: a function that mentions a const reaches the functions its initialiser mentions;
        # lazy_static: the static's Deref impl runs the initialiser function
        for dp in list(self.edges):
            extra = set()
            for r in list(self.edges[dp]):
                if isinstance(r, str) and r.startswith("const:"):
                    self.edges[dp].discard(r)
                    name = r[6:]
                    extra.update(x for x in const_refs.get(name, ()) if not x.startswith("const:"))
                    for d2 in self.mir:
                        if d2.startswith("<%s as std::ops::Deref>::deref" % name):
                            extra.add(d2)
            self.edges[dp].update(extra)
        # closures are reachable from the function that creates them
        for dp, m in self.mir.items():
            if m.get("kind") == "Closure":
                par = m.get("parent")
                if par in self.edges:
                    self.edges[par].add(dp)
        # lazy_static initialisers and consts referenced: treat static initialiser fns as reachable from users (by name)

    def _is_trait_decl(self, path):
        b = self.bodies.get(path)
        return b is not None and "impl" not in b

    def reachable(self, roots):
        seen = set()
        todo = [r for r in roots if r in self.edges]
        parent = {}
        while todo:
            x = todo.pop()
            if x in seen:
                continue
            seen.add(x)
            for y in self.edges.get(x, ()):
                if y not in seen:
                    parent.setdefault(y, x)
                    todo.append(y)
        self.parent = parent
        return seen

    def path_to(self, node, roots):
        p = [node]
        while p[-1] in self.parent and p[-1] not in roots:
            p.append(self.parent[p[-1]])
        return list(reversed(p))

    def find(self, pred):
        return [dp for dp in self.mir if pred(dp)]
