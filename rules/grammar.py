"""PEG (pest) grammar analysis on the AST dumped by pest-facts: pair structure (which child pairs a rule can produce, in which order),
token-level FIRST sets, keyword tables."""
import itertools

from .facts import AnalysisGap

BUILTIN_NO_PAIR = {"ANY", "NEWLINE", "SOI", "ASCII_DIGIT", "ASCII_NONZERO_DIGIT", "ASCII_ALPHA", "ASCII_ALPHA_LOWER", "ASCII_ALPHA_UPPER", "ASCII_ALPHANUMERIC",
                   "ASCII_HEX_DIGIT", "ASCII_OCT_DIGIT", "ASCII_BIN_DIGIT", "WHITESPACE", "COMMENT"}


class Grammar:
    def __init__(self, rules, order):
        self.rules = rules
        self.order = order
        self._words = {}

    def rule(self, name):
        if name not in self.rules:
            raise AnalysisGap("grammar rule `%s` does not exist" % name)
        return self.rules[name]

    def is_silent(self, name):
        return self.rule(name)["ty"] == "silent"

    def produces_pair(self, name):
        return name == "EOI" or (name in self.rules and self.rules[name]["ty"] != "silent")

    def inner_words(self, name, rep_bound=1):
        """All sequences of child-pair rule names that a pair of rule `name` can contain (repetitions unrolled up to rep_bound)."""
        key = (name, rep_bound)
        if key not in self._words:
            r = self.rule(name)
            if r["ty"] == "atomic":
                self._words[key] = {()}
            else:
                self._words[key] = self._w(r["expr"], rep_bound, frozenset([name]))
        return self._words[key]

    def _w(self, e, bound, stack):
        k = e["e"]
        if k in ("str", "insens", "range", "peek", "skip"):
            return {()}
        if k in ("pos", "neg"):
            return {()}
        if k == "ident":
            n = e["v"]
            if n == "EOI":
                return {("EOI",)}
            if n in BUILTIN_NO_PAIR and n not in self.rules:
                return {()}
            if n in ("WHITESPACE", "COMMENT"):
                return {()}
            r = self.rule(n)
            if r["ty"] == "silent":
                if n in stack:
                    # recursion through a silent rule: approximate by one more unfolding being empty
                    return {()}
                return self._w(r["expr"], bound, stack | {n})
            return {(n,)}
        if k == "seq":
            a, b = self._w(e["a"], bound, stack), self._w(e["b"], bound, stack)
            return {x + y for x in a for y in b}
        if k == "choice":
            return self._w(e["a"], bound, stack) | self._w(e["b"], bound, stack)
        if k == "opt":
            return {()} | self._w(e["x"], bound, stack)
        if k in ("rep", "rep1", "repn"):
            x = self._w(e["x"], bound, stack)
            lo = 0 if k == "rep" else (1 if k == "rep1" else e["min"])
            hi = lo + bound if k != "repn" or e["max"] is None else e["max"]
            if k != "repn" and 2 <= len(x - {()}) <= 4:
                # a repetition over a few different alternatives: two rounds, so that every order of two different children is met
                # (`(a | b)*` admits `b a`, which one round never shows); a repetition of one alternative differs by its count only
                hi = lo + max(bound, 2)
            out = set()
            for n in range(lo, hi + 1):
                for combo in itertools.product(sorted(x), repeat=n):
                    w = ()
                    for c in combo:
                        w += c
                    out.add(w)
            return out
        if k == "push":
            return self._w(e["x"], bound, stack)
        raise AnalysisGap("grammar node %s" % k)

    def alternatives(self, name):
        """Top-level ordered alternatives of a rule's expression."""
        def flat(e):
            if e["e"] == "choice":
                return flat(e["a"]) + flat(e["b"])
            return [e]
        return flat(self.rule(name)["expr"])

    def literal_of(self, name):
        """The literal(s) a token rule matches when it is a plain string / choice of strings."""
        out = []
        for a in self.alternatives(name):
            if a["e"] == "str":
                out.append(a["v"])
            elif a["e"] == "seq":
                # e.g. "not" ~ &(...)  or  !x ~ "-"
                lits = []

                def coll(x):
                    if x["e"] == "seq":
                        coll(x["a"])
                        coll(x["b"])
                    elif x["e"] == "str":
                        lits.append(x["v"])
                    elif x["e"] in ("pos", "neg"):
                        pass
                    elif x["e"] == "opt" and x["x"]["e"] == "str":
                        lits.append(("opt", x["x"]["v"]))
                    else:
                        lits.append(None)
                coll(a)
                if all(isinstance(l, str) for l in lits):
                    out.append("".join(lits))
                elif all(isinstance(l, (str, tuple)) for l in lits):
                    base = "".join(l if isinstance(l, str) else "" for l in lits)
                    full = "".join(l if isinstance(l, str) else l[1] for l in lits)
                    out.extend([full, base])
                else:
                    out.append(None)
            else:
                out.append(None)
        return out


def load(fx, which):
    return Grammar(fx.grammars[which], fx.grammars[which + "#order"])
