"""A small reader, type checker and finite-structure evaluator for the TFF fragment used by anthem's preamble
(standard_interpretation.p) and printed by its TPTP formatter.  This reads a text file of the source tree; it does not run
anthem."""
import re

TOKEN = re.compile(r"\s*(\$?[A-Za-z_][A-Za-z0-9_]*|<=>|<=|=>|!=|[()\[\],:.&|~!?=*>]|[0-9]+)")


class TffError(Exception):
    pass


def tokenize(text):
    out = []
    i = 0
    text = re.sub(r"%[^\n]*", "", text)
    while i < len(text):
        m = TOKEN.match(text, i)
        if not m:
            if text[i:].strip() == "":
                break
            raise TffError("cannot tokenize at %r" % text[i:i + 30])
        out.append(m.group(1))
        i = m.end()
    return out


class Parser:
    def __init__(self, toks):
        self.t = toks
        self.i = 0

    def peek(self):
        return self.t[self.i] if self.i < len(self.t) else None

    def eat(self, x=None):
        tok = self.peek()
        if tok is None or (x is not None and tok != x):
            raise TffError("expected %r, found %r at token %d" % (x, tok, self.i))
        self.i += 1
        return tok

    def file(self):
        out = []
        while self.peek() is not None:
            out.append(self.annotated())
        return out

    def annotated(self):
        self.eat("tff")
        self.eat("(")
        name = self.eat()
        self.eat(",")
        role = self.eat()
        self.eat(",")
        if role == "type":
            body = self.typing()
        else:
            body = self.formula()
        self.eat(")")
        self.eat(".")
        return {"name": name, "role": role, "body": body}

    def typing(self):
        paren = False
        if self.peek() == "(":
            paren = True
            self.eat("(")
        ident = self.eat()
        self.eat(":")
        ty = self.type_()
        if paren:
            self.eat(")")
        return ("typing", ident, ty)

    def type_(self):
        # atomic | (t * t ..) > t | t > t
        if self.peek() == "(":
            self.eat("(")
            args = [self.eat()]
            while self.peek() == "*":
                self.eat("*")
                args.append(self.eat())
            self.eat(")")
            self.eat(">")
            res = self.eat()
            return ("fn", tuple(args), res)
        a = self.eat()
        if self.peek() == ">":
            self.eat(">")
            return ("fn", (a,), self.eat())
        return ("atom", a)

    # formula := unitary (binop unitary)?   with & and | associative chains (not mixed)
    def formula(self):
        left = self.unitary()
        op = self.peek()
        if op in ("<=>", "=>", "<="):
            self.eat()
            right = self.unitary()
            if self.peek() in ("<=>", "=>", "<=", "&", "|"):
                raise TffError("non-associative connective chained without parentheses near token %d" % self.i)
            return (op, left, right)
        if op in ("&", "|"):
            parts = [left]
            while self.peek() == op:
                self.eat()
                parts.append(self.unitary())
            if self.peek() in ("<=>", "=>", "<=", "&", "|"):
                raise TffError("mixed connectives without parentheses near token %d" % self.i)
            f = parts[0]
            for p in parts[1:]:
                f = (op, f, p)
            return f
        return left

    def unitary(self):
        tok = self.peek()
        if tok == "~":
            self.eat()
            return ("~", self.unitary())
        if tok in ("!", "?"):
            self.eat()
            self.eat("[")
            vs = []
            while True:
                v = self.eat()
                self.eat(":")
                ty = self.eat()
                vs.append((v, ty))
                if self.peek() == ",":
                    self.eat()
                    continue
                break
            self.eat("]")
            self.eat(":")
            return (tok, tuple(vs), self.unitary())
        if tok == "(":
            self.eat("(")
            f = self.formula()
            self.eat(")")
            # a parenthesised term followed by = / != is not produced by anthem
            return f
        # atomic: term [(=|!=) term]
        t = self.term()
        if self.peek() in ("=", "!="):
            op = self.eat()
            return (op, t, self.term())
        return ("atom", t)

    def term(self):
        tok = self.eat()
        if tok is None or not re.match(r"\$?[A-Za-z_0-9]", tok):
            raise TffError("term expected, found %r" % tok)
        if self.peek() == "(":
            self.eat("(")
            args = [self.term()]
            while self.peek() == ",":
                self.eat()
                args.append(self.term())
            self.eat(")")
            return ("app", tok, tuple(args))
        if tok[0].isupper():
            return ("var", tok)
        if tok.isdigit():
            return ("int", int(tok))
        return ("app", tok, ())


def parse(text):
    return Parser(tokenize(text)).file()


BUILTIN = {
    "$less": (("$int", "$int"), "$o"), "$lesseq": (("$int", "$int"), "$o"), "$greater": (("$int", "$int"), "$o"), "$greatereq": (("$int", "$int"), "$o"),
    "$sum": (("$int", "$int"), "$int"), "$difference": (("$int", "$int"), "$int"), "$product": (("$int", "$int"), "$int"), "$uminus": (("$int",), "$int"),
    "$true": ((), "$o"), "$false": ((), "$o"),
}


def signature(items):
    """Declarations of a parsed file: ident -> (arg types, result type); list of problems found."""
    sig = {}
    problems = []
    types = {"$int", "$o", "$i", "$tType"}
    for it in items:
        if it["role"] != "type":
            continue
        _, ident, ty = it["body"]
        if ident in sig or ident in types:
            problems.append("identifier %s declared twice" % ident)
        if ty == ("atom", "$tType"):
            types.add(ident)
            sig[ident] = ("type",)
        elif ty[0] == "atom":
            sig[ident] = ((), ty[1])
        else:
            sig[ident] = (ty[1], ty[2])
    for ident, s in sig.items():
        if s == ("type",):
            continue
        for t in tuple(s[0]) + (s[1],):
            if t not in types:
                problems.append("%s uses undeclared type %s" % (ident, t))
    return sig, types, problems


def typecheck(items, sig, types):
    problems = []
    names = set()

    def term_ty(t, env):
        if t[0] == "var":
            if t[1] not in env:
                problems.append("unbound variable %s" % t[1])
                return None
            return env[t[1]]
        if t[0] == "int":
            return "$int"
        _, f, args = t
        s = sig.get(f) or BUILTIN.get(f)
        if s is None or s == ("type",):
            problems.append("undeclared symbol %s" % f)
            return None
        if len(s[0]) != len(args):
            problems.append("%s used with %d arguments, declared with %d" % (f, len(args), len(s[0])))
            return s[1]
        for a, want in zip(args, s[0]):
            got = term_ty(a, env)
            if got is not None and got != want:
                problems.append("%s: argument of type %s where %s is declared" % (f, got, want))
        return s[1]

    def form(f, env):
        k = f[0]
        if k in ("<=>", "=>", "<=", "&", "|"):
            form(f[1], env)
            form(f[2], env)
        elif k == "~":
            form(f[1], env)
        elif k in ("!", "?"):
            e2 = dict(env)
            for v, ty in f[1]:
                if ty not in types:
                    problems.append("variable %s has undeclared type %s" % (v, ty))
                e2[v] = ty
            form(f[2], e2)
        elif k in ("=", "!="):
            a, b = term_ty(f[1], env), term_ty(f[2], env)
            if a is not None and b is not None and a != b:
                problems.append("equation between %s and %s" % (a, b))
            if a == "$o" or b == "$o":
                problems.append("equation on formulas")
        elif k == "atom":
            if term_ty(f[1], env) not in ("$o", None):
                problems.append("term used as formula: %r" % (f[1],))

    for it in items:
        if it["name"] in names:
            problems.append("formula name %s used twice" % it["name"])
        names.add(it["name"])
        if it["role"] != "type":
            form(it["body"], {})
    return problems


# ---------------------------------------------------------------------------------------
# the standard structure restricted to a window


class Structure:
    def __init__(self, lo, hi, symbols):
        self.ints = list(range(lo, hi + 1))
        self.syms = list(symbols)
        self.general = [("inf",)] + [("int", i) for i in self.ints] + [("sym", s) for s in self.syms] + [("sup",)]
        self.dom = {"$int": self.ints, "symbol": self.syms, "general": self.general}

    @staticmethod
    def rank(g):
        if g[0] == "inf":
            return (0,)
        if g[0] == "int":
            return (1, g[1])
        if g[0] == "sym":
            return (2, g[1])
        return (3,)

    def le(self, a, b):
        return self.rank(a) <= self.rank(b)

    def fn(self, f, args):
        if f == "f__integer__":
            return ("int", args[0])
        if f == "f__symbolic__":
            return ("sym", args[0])
        if f == "c__infimum__":
            return ("inf",)
        if f == "c__supremum__":
            return ("sup",)
        if f == "p__is_integer__":
            return args[0][0] == "int"
        if f == "p__is_symbolic__":
            return args[0][0] == "sym"
        if f == "p__less_equal__":
            return self.le(args[0], args[1])
        if f == "p__less__":
            return self.le(args[0], args[1]) and args[0] != args[1]
        if f == "p__greater_equal__":
            return self.le(args[1], args[0])
        if f == "p__greater__":
            return self.le(args[1], args[0]) and args[0] != args[1]
        if f == "$lesseq":
            return args[0] <= args[1]
        if f == "$less":
            return args[0] < args[1]
        if f == "$greatereq":
            return args[0] >= args[1]
        if f == "$greater":
            return args[0] > args[1]
        if f == "$true":
            return True
        if f == "$false":
            return False
        raise TffError("symbol %s outside the order/equality fragment" % f)

    def term(self, t, env):
        if t[0] == "var":
            return env[t[1]]
        if t[0] == "int":
            return t[1]
        return self.fn(t[1], [self.term(a, env) for a in t[2]])

    def holds(self, f, env, stats):
        k = f[0]
        if k == "<=>":
            return self.holds(f[1], env, stats) == self.holds(f[2], env, stats)
        if k == "=>":
            return (not self.holds(f[1], env, stats)) or self.holds(f[2], env, stats)
        if k == "<=":
            return self.holds(f[1], env, stats) or not self.holds(f[2], env, stats)
        if k == "&":
            return self.holds(f[1], env, stats) and self.holds(f[2], env, stats)
        if k == "|":
            return self.holds(f[1], env, stats) or self.holds(f[2], env, stats)
        if k == "~":
            return not self.holds(f[1], env, stats)
        if k in ("!", "?"):
            vs = f[1]

            def rec(i, env):
                if i == len(vs):
                    stats["assignments"] += 1
                    return self.holds(f[2], env, stats)
                v, ty = vs[i]
                if ty not in self.dom:
                    raise TffError("quantifier over type %s" % ty)
                results = (rec(i + 1, dict(env, **{v: d})) for d in self.dom[ty])
                return all(results) if k == "!" else any(results)
            return rec(0, env)
        if k == "=":
            return self.term(f[1], env) == self.term(f[2], env)
        if k == "!=":
            return self.term(f[1], env) != self.term(f[2], env)
        if k == "atom":
            return bool(self.term(f[1], env))
        raise TffError("formula kind %s" % k)


def quantifier_depth(f):
    k = f[0]
    if k in ("!", "?"):
        return len(f[1]) + quantifier_depth(f[2])
    if k in ("<=>", "=>", "<=", "&", "|"):
        return max(quantifier_depth(f[1]), quantifier_depth(f[2]))
    if k == "~":
        return quantifier_depth(f[1])
    return 0


def symbols_used(f, acc=None):
    acc = set() if acc is None else acc

    def term(t):
        if t[0] == "app":
            acc.add((t[1], len(t[2])))
            for a in t[2]:
                term(a)
    k = f[0]
    if k in ("<=>", "=>", "<=", "&", "|"):
        symbols_used(f[1], acc)
        symbols_used(f[2], acc)
    elif k == "~":
        symbols_used(f[1], acc)
    elif k in ("!", "?"):
        symbols_used(f[2], acc)
    elif k in ("=", "!="):
        term(f[1])
        term(f[2])
    elif k == "atom":
        term(f[1])
    return acc
