"""PANIC-GCOV: abstract interpretation of the `translate_pair` functions over the pair structure the grammar can produce.

Every translate_pair body is executed on abstract pairs: a pair is its rule name; `into_inner()` of the pair under analysis yields each
child sequence the grammar allows for that rule (repetitions unrolled); `into_inner()` of another pair forks over that rule's child
sequences.  The interpreter is set-valued (every reachable state is explored).  Reaching `report_unexpected_pair` / `report_missing_pair`,
`unwrap()` on an absent pair, or a Pratt-parser misuse is a finding that names parser, rule and child sequence.  Calls into other parsers
produce modular obligations (parser, rule) that are explored in turn.
"""
from .facts import AnalysisGap, callee, callee_generic, ctor_of, strip
from . import hq


class Panic(Exception):
    def __init__(self, kind, detail):
        Exception.__init__(self, "%s: %s" % (kind, detail))
        self.kind = kind
        self.detail = detail


OPAQUE = ("node",)
NEVER = ("never",)


class Interp:
    def __init__(self, fx, grammar, which, pratt):
        self.fx = fx
        self.g = grammar
        self.which = which  # 'asp' | 'fol'
        self.pratt = pratt  # name -> {'infix': set, 'prefix': set, 'postfix': set}
        self.requirements = set()
        self.panics = []
        self.num_parse_unwrap = []
        self.num_parse_text = []
        self.steps = 0
        self.cur = None
        mod = "parsing::%s::" % ("asp::mini_gringo" if which == "asp" else "fol::sigma_0")
        self.parsers = {}
        for b in fx.body_list:
            if b["name"] == "translate_pair" and b.get("impl", {}).get("self_ty", "").startswith(mod):
                self.parsers[hq.last(b["impl"]["self_ty"])] = b

    # ------------------------------------------------------------------ driver
    def run_parser(self, parser, rule):
        b = self.parsers.get(parser)
        if b is None:
            raise AnalysisGap("parser %s not found" % parser)
        words = sorted(self.g.inner_words(rule)) if rule != "EOI" else [()]
        findings = []
        for w in words:
            self.cur = (parser, rule, w)
            env = {}
            pid = b["params"][0].get("id")
            env[pid] = ("pair", rule, w)
            try:
                for _ in self.eval(b["body"], env):
                    pass
            except Panic as p:
                findings.append((w, p.kind, p.detail))
        return findings

    def panic(self, kind, detail):
        raise Panic(kind, detail)

    # ------------------------------------------------------------------ evaluation: generators of (value, env)
    def eval(self, e, env):
        self.steps += 1
        if self.steps > 2000000:
            raise AnalysisGap("interpreter budget exceeded")
        k = e.get("k")
        if k in ("DropTemps", "Use", "Type", "Ref", "Cast"):
            yield from self.eval(e["e"], env)
            return
        if k == "Unary":
            for v, en in self.eval(e["e"], env):
                if e.get("op") == "Not" and v[0] == "bool":
                    yield ("bool", not v[1]), en
                else:
                    yield v, en
            return
        if k == "Lit":
            v = e.get("v")
            yield (("bool", v) if isinstance(v, bool) else OPAQUE), env
            return
        if k == "Path":
            r = e.get("res", {})
            if r.get("r") == "local":
                yield env.get(r["id"], OPAQUE), env
                return
            if r.get("r") == "ctor" and hq.last(r.get("adt", "")) == "Rule":
                yield ("rule", r["variant"]), env
                return
            if r.get("r") == "ctor" and r.get("variant") == "None":
                yield ("opt", None), env
                return
            if "callee" in e:
                yield ("fnref", e.get("callee_res") or e["callee"], e.get("ty", "")), env
                return
            yield OPAQUE, env
            return
        if k == "Block":
            if "mac_src" in e and e.get("mac") in ("unreachable", "panic", "todo", "unimplemented"):
                self.panic("panic", e["mac_src"][:60])
            yield from self.block(e, env)
            return
        if k == "If":
            for c, en in self.eval(e["cond"], env):
                if c == ("bool", True):
                    yield from self.eval(e["then"], en)
                elif c == ("bool", False):
                    if "else" in e:
                        yield from self.eval(e["else"], en)
                    else:
                        yield ("unit",), en
                else:
                    yield from self.eval(e["then"], dict(en))
                    if "else" in e:
                        yield from self.eval(e["else"], dict(en))
                    else:
                        yield ("unit",), en
            return
        if k == "Let":
            for v, en in self.eval(e["init"], env):
                m, en2 = self.match_pat(e["pat"], v, en)
                yield ("bool", m) if m is not None else OPAQUE, en2
            return
        if k == "Match":
            yield from self.match(e, env)
            return
        if k == "Assign":
            for v, en in self.eval(e["r"], env):
                l = strip(e["l"])
                if l.get("k") == "Path" and l.get("res", {}).get("r") == "local":
                    en = dict(en)
                    en[l["res"]["id"]] = v
                yield ("unit",), en
            return
        if k == "Ret":
            if "e" in e:
                for v, en in self.eval(e["e"], env):
                    pass
            return  # path ends
        if k == "Call":
            yield from self.call(e, env)
            return
        if k == "MethodCall":
            yield from self.method(e, env)
            return
        if k == "Struct":
            envs = [env]
            for f in e["fields"]:
                nxt = []
                for en in envs:
                    for v, en2 in self.eval(f["e"], en):
                        nxt.append(en2)
                envs = nxt
            for en in envs:
                yield OPAQUE, en
            return
        if k == "Closure":
            yield ("closure", e, env), env
            return
        if k in ("Tup", "Array"):
            envs = [env]
            for x in e["es"]:
                nxt = []
                for en in envs:
                    for v, en2 in self.eval(x, en):
                        nxt.append(en2)
                envs = nxt
            for en in envs:
                yield OPAQUE, en
            return
        if k == "Binary":
            for a, en in self.eval(e["l"], env):
                for b_, en2 in self.eval(e["r"], en):
                    if a[0] == "rule" and b_[0] == "rule" and e["op"] in ("Eq", "Ne"):
                        yield ("bool", (a[1] == b_[1]) == (e["op"] == "Eq")), en2
                    elif a[0] == "bool" and b_[0] == "bool" and e["op"] in ("And", "Or"):
                        yield ("bool", (a[1] and b_[1]) if e["op"] == "And" else (a[1] or b_[1])), en2
                    else:
                        yield OPAQUE, en2
            return
        if k == "Field":
            for v, en in self.eval(e["e"], env):
                yield OPAQUE, en
            return
        yield OPAQUE, env

    def block(self, b, env):
        states = [env]
        for s in b.get("stmts", []):
            nxt = []
            for en in states:
                if s["k"] == "LetStmt":
                    if "init" in s:
                        for v, en2 in self.eval(s["init"], en):
                            m_, en3 = self.match_pat(s["pat"], v, en2)
                            if "else" in s and m_ is not True:
                                # `let P = v else { diverge }`: the else block runs when the pattern does not match (it returns or panics)
                                for v2, en4 in self.eval({"k": "Block", **s["else"]} if s["else"].get("k") != "Block" else s["else"], en2):
                                    if v2 != NEVER:
                                        nxt.append(en4)
                                if m_ is False:
                                    continue
                            nxt.append(en3)
                    else:
                        nxt.append(en)
                elif s["k"] == "ItemStmt":
                    nxt.append(en)
                else:
                    for v, en2 in self.eval(s["e"], en):
                        if v != NEVER:
                            nxt.append(en2)
            states = nxt
        for en in states:
            if "expr" in b:
                yield from self.eval(b["expr"], en)
            else:
                yield ("unit",), en

    def match_pat(self, p, v, env):
        """(matches: True/False/None, env with bindings)"""
        k = p.get("p")
        if k == "Wild":
            return True, env
        if k == "Bind":
            env = dict(env)
            env[p["id"]] = v
            if "sub" in p:
                return self.match_pat(p["sub"], v, env)
            return True, env
        if k in ("Ref", "Box", "Deref"):
            return self.match_pat(p["pat"], v, env)
        if k == "Or":
            res = False
            for q in p["pats"]:
                m, en = self.match_pat(q, v, env)
                if m is True:
                    return True, en
                if m is None:
                    res = None
            return res, env
        r = p.get("res", {})
        if k in ("Path", "TupleStruct", "Struct") and r.get("r") == "ctor":
            adt, var = hq.last(r["adt"]), r.get("variant")
            if adt == "Rule":
                if v[0] == "rule":
                    return v[1] == var, env
                return None, env
            if adt == "Option":
                if v[0] == "opt":
                    if var == "None":
                        return v[1] is None, env
                    if v[1] is None:
                        return False, env
                    sub = p["pats"][0] if k == "TupleStruct" and p["pats"] else (p["fields"][0]["pat"] if k == "Struct" and p.get("fields") else None)
                    if sub is None:
                        return True, env
                    return self.match_pat(sub, v[1], env)
                return None, env
        return None, env

    def match(self, e, env):
        for sv, en in self.eval(e["scrut"], env):
            taken = False
            undecided = False
            for a in e["arms"]:
                m, en2 = self.match_pat(a["pat"], sv, en)
                if m is False:
                    continue
                if "guard" in a:
                    gs = list(self.eval(a["guard"], en2))
                    go = []
                    for gv, en3 in gs:
                        if gv == ("bool", False):
                            continue
                        go.append((gv, en3))
                    if not go:
                        continue
                    for gv, en3 in go:
                        yield from self.eval(a["body"], en3)
                        if gv != ("bool", True):
                            undecided = True
                    if m is True and not undecided and all(gv == ("bool", True) for gv, _ in gs):
                        taken = True
                        break
                    continue
                yield from self.eval(a["body"], en2)
                if m is True:
                    taken = True
                    break
            if not taken and sv[0] in ("rule", "opt") and not undecided:
                pass

    # ------------------------------------------------------------------ calls
    def call(self, e, env):
        c = ctor_of(e)
        g = callee_generic(e) or ""
        res = callee(e) or ""
        if c is not None:
            name = c[1]
            envs = [([], env)]
            for a in e["args"]:
                nxt = []
                for vals, en in envs:
                    for v, en2 in self.eval(a, en):
                        nxt.append((vals + [v], en2))
                envs = nxt
            for vals, en in envs:
                if name == "Some":
                    yield ("opt", vals[0]), en
                else:
                    yield OPAQUE, en
            return
        if g.endswith("PestParser::report_unexpected_pair"):
            vs = [v for a in e["args"] for v, _ in self.eval(a, env)]
            self.panic("unexpected-pair", "report_unexpected_pair(%s)" % (vs[0][1] if vs and vs[0][0] == "pair" else "?"))
        if g.endswith("PestParser::report_missing_pair"):
            self.panic("missing-pair", "report_missing_pair()")
        if g.endswith("PestParser::translate_pair") or g.endswith("PestParser::translate_pairs"):
            target = self.parser_of(res, e["f"].get("ty", ""))
            for v, en in self.eval(e["args"][0], env):
                self.apply_parser(target, g.endswith("translate_pairs"), v)
                yield OPAQUE, en
            return
        if g in ("std::boxed::Box::<T>::new",):
            yield from self.eval(e["args"][0], env)
            return
        # a local closure or a later-extracted helper: its body is evaluated on the argument values (`let next = || pairs.next().unwrap_or_else(..)`,
        # `Self::translate_sorted_pair(pair, sort)`)
        fpath = strip(e["f"]) if isinstance(e.get("f"), dict) else {}
        target = None
        if fpath.get("k") == "Path" and fpath.get("res", {}).get("r") == "local":
            fv = env.get(fpath["res"]["id"])
            if isinstance(fv, tuple) and fv[:1] == ("closure",):
                target = (fv[1]["params"], fv[1]["body"], dict(fv[2]))
        elif "inlined" in e and "inlined_params" in e:
            target = (e["inlined_params"], e["inlined"], {})
        if target is not None and getattr(self, "_depth", 0) < 6:
            params, body, cenv0 = target
            envs = [([], env)]
            for a in e["args"]:
                nxt = []
                for vals, en in envs:
                    for v, en2 in self.eval(a, en):
                        nxt.append((vals + [v], en2))
                envs = nxt
            self._depth = getattr(self, "_depth", 0) + 1
            try:
                for vals, en in envs:
                    cenv = dict(cenv0)
                    cenv.update(en)       # captures are by reference: the closure sees the caller's locals as they are now
                    for p_, a_ in zip(params, vals):
                        m_, cenv = self.match_pat(p_, a_, cenv)
                    for v, en3 in self.eval(body, cenv):
                        # what the body did to the caller's locals (a `pairs` iterator advanced by the closure) is kept
                        out_env = dict(en)
                        out_env.update({k_: v_ for k_, v_ in en3.items() if k_ in en})
                        yield v, out_env
            finally:
                self._depth -= 1
            return
        # generic call: evaluate args for effects
        envs = [env]
        for a in e["args"]:
            nxt = []
            for en in envs:
                for v, en2 in self.eval(a, en):
                    nxt.append(en2)
            envs = nxt
        if e.get("ty") == "!":
            self.panic("panic", hq.render(e)[:60])
        for en in envs:
            yield OPAQUE, en

    def parser_of(self, resolved, fn_ty=""):
        # <parsing::fol::sigma_0::pest::RoleParser as parsing::PestParser>::translate_pair
        if resolved.startswith("<") and " as " in resolved:
            return hq.last(resolved[1:resolved.index(" as ")])
        import re as _re
        m = _re.search(r"\{<([\w:]+) as parsing::PestParser>::translate_pairs?\}", fn_ty)
        if m:
            return hq.last(m.group(1))
        if self.cur:
            return self.cur[0]  # Self::translate_pairs
        raise AnalysisGap("cannot resolve parser of %s" % resolved)

    def apply_parser(self, target, plural, v):
        if plural:
            if v[0] != "pairs":
                raise AnalysisGap("translate_pairs on %r" % (v,))
            items = v[1]
            if len(items) == 0:
                self.panic("missing-pair", "%s::translate_pairs on an empty pair list" % target)
            if len(items) > 1:
                self.panic("unexpected-pair", "%s::translate_pairs on %d pairs %s" % (target, len(items), items))
            self.requirements.add((target, items[0]))
        else:
            if v[0] != "pair":
                raise AnalysisGap("translate_pair on %r" % (v,))
            self.requirements.add((target, v[1]))

    def method(self, e, env):
        m = e["method"]
        recv_local = None
        rn = strip(e["recv"])
        if rn.get("k") == "Path" and rn.get("res", {}).get("r") == "local":
            recv_local = rn["res"]["id"]
        for rv, en in self.eval(e["recv"], env):
            if m == "as_rule" and rv[0] == "pair":
                yield ("rule", rv[1]), en
                continue
            if m == "into_inner" and rv[0] == "pair":
                if len(rv) == 3:
                    yield ("pairs", tuple(rv[2])), en
                else:
                    for w in sorted(self.g.inner_words(rv[1])):
                        yield ("pairs", tuple(w)), dict(en)
                continue
            if m in ("next", "next_back") and rv[0] == "pairs":
                items = rv[1]
                if not items:
                    yield ("opt", None), en
                else:
                    it, rest = (items[0], items[1:]) if m == "next" else (items[-1], items[:-1])
                    en2 = en
                    if recv_local is not None:
                        en2 = dict(en)
                        en2[recv_local] = ("pairs", rest)
                    yield ("opt", ("pair", it)), en2
                continue
            if m in ("peekable", "by_ref", "fuse") and rv[0] == "pairs":
                yield rv, en
                continue
            if m == "next_if" and rv[0] == "pairs" and len(e["args"]) == 1:
                # consume the next pair iff the predicate holds for it
                if not rv[1]:
                    yield ("opt", None), en
                    continue
                first = ("pair", rv[1][0])
                for fv, en2 in self.eval(e["args"][0], en):
                    verdicts = []
                    if fv[0] == "closure":
                        cl, cenv = fv[1], dict(fv[2])
                        cenv.update({k_: v_ for k_, v_ in en2.items() if k_ not in cenv})
                        for p_, a_ in zip(cl["params"], [first]):
                            _, cenv = self.match_pat(p_, a_, cenv)
                        verdicts = [v_ for v_, _ in self.eval(cl["body"], cenv)]
                    for vd in (verdicts or [OPAQUE]):
                        if vd == ("bool", True) or vd[0] != "bool":
                            en3 = en2
                            if recv_local is not None:
                                en3 = dict(en2)
                                en3[recv_local] = ("pairs", rv[1][1:])
                            yield ("opt", first), en3
                        if vd == ("bool", False) or vd[0] != "bool":
                            yield ("opt", None), en2
                continue
            if m == "peek" and rv[0] == "pairs":
                yield ("opt", ("pair", rv[1][0]) if rv[1] else None), en
                continue
            if m in ("unwrap_or_else", "unwrap_or", "unwrap_or_default") and rv[0] == "opt":
                if rv[1] is not None:
                    yield rv[1], en
                else:
                    if m == "unwrap_or_else":
                        for fv, en2 in self.eval(e["args"][0], en):
                            if fv[0] == "closure":
                                yield from self.eval(fv[1]["body"], en2)
                            else:
                                yield OPAQUE, en2
                    else:
                        yield OPAQUE, en
                continue
            if m in ("unwrap", "expect"):
                if rv[0] == "opt":
                    if rv[1] is None:
                        self.panic("unwrap-none", "unwrap() on a pair that the grammar does not guarantee")
                    yield rv[1], en
                    continue
                # Result::unwrap on str::parse
                inner = strip(e["recv"])
                if inner.get("k") == "MethodCall" and inner["method"] == "parse":
                    self.num_parse_unwrap.append((self.cur[0], self.cur[1], inner.get("ty", "")))
                    # which grammar rule's text is converted (when the receiver is the text of a pair)
                    self.num_parse_text.append((self.cur[0], self.cur[1], inner.get("ty", ""), rv[1] if rv[0] == "text" else None))
                    yield OPAQUE, en
                    continue
                yield OPAQUE, en
                continue
            if m == "map" and rv[0] == "opt":
                if rv[1] is None:
                    yield ("opt", None), en
                else:
                    for fv, en2 in self.eval(e["args"][0], en):
                        self.apply_fn(fv, [rv[1]], en2)
                        yield ("opt", OPAQUE), en2
                continue
            if m == "map" and rv[0] == "pairs":
                for fv, en2 in self.eval(e["args"][0], en):
                    for it in rv[1]:
                        self.apply_fn(fv, [("pair", it)], en2)
                    en3 = en2
                    if recv_local is not None:
                        en3 = dict(en2)
                        en3[recv_local] = ("pairs", ())
                    yield OPAQUE, en3
                continue
            if m in ("map_primary", "map_prefix", "map_infix", "map_postfix") and (rv[0] in ("pratt", "node")):
                base = rv if rv[0] == "pratt" else ("pratt", self.pratt_name(e["recv"]), {})
                for fv, en2 in self.eval(e["args"][0], en):
                    d = dict(base[2])
                    d[m] = fv
                    yield ("pratt", base[1], d), en2
                continue
            if m == "parse" and rv[0] == "pratt":
                for pv, en2 in self.eval(e["args"][0], en):
                    self.pratt_parse(rv, pv, en2)
                    yield OPAQUE, en2
                continue
            if m == "as_str" and rv[0] == "pair":
                yield ("text", rv[1]), en
                continue
            if m == "collect" or m in ("as_str", "into", "to_string", "clone", "parse", "into_iter", "iter"):
                yield (rv if m in ("clone", "into_iter", "iter") or (rv[0] == "text" and m in ("into", "to_string", "parse")) else OPAQUE), en
                continue
            # any other method: evaluate args
            envs = [en]
            for a in e["args"]:
                nxt = []
                for en_ in envs:
                    for v, en2 in self.eval(a, en_):
                        nxt.append(en2)
                envs = nxt
            for en_ in envs:
                yield OPAQUE, en_

    def apply_fn(self, fv, args, env):
        if fv[0] == "fnref":
            g = fv[1]
            if g.endswith("::translate_pair") or g.endswith("::translate_pairs"):
                self.apply_parser(self.parser_of(g, fv[2] if len(fv) > 2 else ""), g.endswith("translate_pairs"), args[0])
            return
        if fv[0] == "closure":
            cl, cenv = fv[1], dict(fv[2])
            cenv.update({k: v for k, v in env.items() if k not in cenv})
            for p, a in zip(cl["params"], args):
                _, cenv = self.match_pat(p, a, cenv)
            for _ in self.eval(cl["body"], cenv):
                pass

    def pratt_name(self, recv):
        for n in hq.walk(recv):
            if n.get("k") == "Path" and n.get("res", {}).get("r") == "def" and "PRATT_PARSER" in n["res"].get("path", ""):
                return hq.last(n["res"]["path"])
        raise AnalysisGap("Pratt parser constant not identified")

    def pratt_parse(self, pr, pv, env):
        if pv[0] != "pairs":
            raise AnalysisGap("pratt.parse on %r" % (pv,))
        ops = self.pratt.get(pr[1])
        if ops is None:
            raise AnalysisGap("Pratt table %s not extracted" % pr[1])
        items = list(pv[1])
        fns = pr[2]
        # state machine of pest's PrattParser: expr := prefix* primary postfix* (infix expr)?
        i = 0
        if not items:
            self.panic("pratt", "Pratt parser invoked on an empty pair list")
        expect_operand = True
        while i < len(items):
            it = items[i]
            if expect_operand:
                if it in ops["prefix"]:
                    if "map_prefix" not in fns:
                        self.panic("pratt", "prefix operator %s but no map_prefix" % it)
                    self.apply_fn(fns["map_prefix"], [("pair", it), OPAQUE], env)
                    i += 1
                    continue
                if it in ops["infix"] or it in ops["postfix"]:
                    self.panic("pratt", "operator %s where an operand is expected in %s" % (it, items))
                self.apply_fn(fns["map_primary"], [("pair", it)], env)
                expect_operand = False
                i += 1
                continue
            if it in ops["postfix"]:
                if "map_postfix" not in fns:
                    self.panic("pratt", "postfix operator %s but no map_postfix" % it)
                i += 1
                continue
            if it in ops["infix"]:
                if "map_infix" not in fns:
                    self.panic("pratt", "infix operator %s but no map_infix" % it)
                self.apply_fn(fns["map_infix"], [OPAQUE, ("pair", it), OPAQUE], env)
                expect_operand = True
                i += 1
                continue
            self.panic("pratt", "pair %s where an infix operator is expected in %s (not registered in %s)" % (it, items, pr[1]))
        if expect_operand:
            self.panic("pratt", "pair list %s ends with an operator" % (items,))


def pratt_tables(fx, which):
    """{const name: {'infix': set(rule), 'prefix': set(rule), 'postfix': set(rule), 'levels': [[(kind, rule, assoc)]]}} from the lazy_static initialisers."""
    mod = "parsing::%s::pest::internal" % ("asp::mini_gringo" if which == "asp" else "fol::sigma_0")
    out = {}
    for b in fx.body_list:
        if mod not in b["def_path"] or "PRATT_PARSER" not in b["def_path"]:
            continue
        import re as _re
        name = _re.search(r"(\w*PRATT_PARSER)", b["def_path"]).group(1)
        levels = []
        # the chain PrattParser::new().op(A | B).op(C)... : collect `.op(arg)` calls in application order
        chains = [n for n in hq.walk(b["body"]) if n.get("k") == "MethodCall" and n["method"] == "op"]
        if not chains:
            continue
        top = max(chains, key=lambda n: len(hq.method_chain(n)[1]))
        _, chain = hq.method_chain(top)
        for c in chain:
            if c["method"] != "op":
                continue
            lvl = []
            for n in hq.walk(c["args"][0]):
                if n.get("k") == "Call" and (callee_generic(n) or "").startswith("pest::pratt_parser::Op::<R>::"):
                    kind = hq.last(callee_generic(n))
                    rule = None
                    assoc = None
                    for a in n["args"]:
                        a = strip(a)
                        r = a.get("res", {}) if a.get("k") == "Path" else {}
                        if r.get("r") == "ctor" and hq.last(r.get("adt", "")) == "Rule":
                            rule = r["variant"]
                        if r.get("r") == "ctor" and hq.last(r.get("adt", "")) == "Assoc":
                            assoc = r["variant"]
                    lvl.append((kind, rule, assoc))
            levels.append(lvl)
        if name in out and out[name]["levels"] and not levels:
            continue
        if levels and (name not in out or len(levels) >= len(out[name]["levels"])):
            out[name] = {"levels": levels,
                         "infix": {r for l in levels for k, r, a in l if k == "infix"},
                         "prefix": {r for l in levels for k, r, a in l if k == "prefix"},
                         "postfix": {r for l in levels for k, r, a in l if k == "postfix"}}
    return out
