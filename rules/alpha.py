"""TPL-ALPHA: bounded capture analysis of the *extracted* val / tau^B templates.

The formula templates that rules/sym.py + rules/ftpl.py extract from tau_star.rs (one per term constructor, with the `taken` set expression of
every choose_fresh_variable_names call) are instantiated on every term up to a depth bound over a pool of adversarial variable names
(I, J, K, Q, R, Z, Z1, V1 ...).  Names are chosen by a model of the name chooser (the algorithm that FRESH:chooser:* pins: the prefix itself if
free, else prefix+n counting up, skipping taken and already chosen names).  Every bound occurrence carries two names: the one the code would
give it, and a globally unique reference name.  The instance is capture-free iff resolving every occurrence by its code name (a variable is
identified by name AND sort) finds the same binder as resolving it by its reference name.

This evaluates extracted artefacts (templates and taken-set expressions), never anthem itself; it is bounded (depth, pool) and says so."""
import itertools

from .facts import AnalysisGap, strip, walk
from . import ftpl, hq, sym


def chooser(taken, prefix, n):
    """model of choose_fresh_variable_names(variables, variant, arity)"""
    if n < 1:
        return []
    fresh = []
    if prefix in taken:
        bound = n + 1
    else:
        fresh.append(prefix)
        bound = n
    for i in range(1, bound):
        m = i
        cand = "%s%d" % (prefix, m)
        while cand in taken or cand in fresh:
            m += 1
            cand = "%s%d" % (prefix, m)
        fresh.append(cand)
    return fresh


def term_vars(t):
    k = t[0]
    if k == "var":
        return [t[1]]
    if k == "neg":
        return term_vars(t[1])
    if k == "bin":
        return term_vars(t[2]) + term_vars(t[3])
    return []


def show_term(t):
    k = t[0]
    if k == "var":
        return t[1]
    if k == "num":
        return str(t[1])
    if k == "sym":
        return t[1]
    if k == "neg":
        return "-(%s)" % show_term(t[1])
    if k == "bin":
        return "(%s %s %s)" % (show_term(t[2]), {"Add": "+", "Subtract": "-", "Multiply": "*", "Divide": "/", "Modulo": "\\\\", "Interval": ".."}[t[1]], show_term(t[3]))
    return "#" + k


def shape_of(t):
    k = t[0]
    return {"var": "Variable", "num": "Numeral", "sym": "Symbol", "inf": "Infimum", "sup": "Supremum"}.get(k) or ("UnaryOperator::Negative" if k == "neg" else "BinaryOperator::" + t[1])


class Instantiator:
    def __init__(self, templates, suffix_model):
        """templates: shape -> (NF formula, {prefix: raw taken term});  suffix_model: taken names from Formula::variables carry `$i` / `$s`"""
        self.templates = templates
        self.suffix = suffix_model
        self.counter = 0

    def fresh_ref(self, hint):
        self.counter += 1
        return "%s#%d" % (hint, self.counter)

    # ------------------------------------------------------------------ val
    def val(self, term, z):
        """z = ((code, ref), sort).  Returns the concrete formula tree."""
        shape = shape_of(term)
        if shape not in self.templates:
            raise AnalysisGap("no template for %s" % shape)
        f, taken = self.templates[shape]
        env = {"$z": z, "$t": term}
        if term[0] == "neg":
            env["$arg"] = term[1]
        if term[0] == "bin":
            env["$lhs"], env["$rhs"] = term[2], term[3]
        if term[0] == "var":
            env["$v"] = term[1]
        if term[0] in ("num", "sym"):
            env["$n"] = env["$s"] = env["$x"] = term[1]
        ctxt = {"names": {}, "formulas": {}, "taken": taken, "env": env}
        return self.inst(f, ctxt)

    def name(self, n, c):
        if n == ("place", "$z.name"):
            return c["env"]["$z"][0]
        if isinstance(n, tuple) and n and n[0] == "fresh":
            p = n[1]
            if p not in c["names"]:
                tk = c["taken"].get(p)
                if tk is None:
                    raise AnalysisGap("no taken set recorded for prefix %s" % p)
                names = chooser(self.taken(tk, c), p, n[2] if isinstance(n[2], int) else 1)
                c["names"][p] = (names[-1], self.fresh_ref(p))
            return c["names"][p]
        if n == ("place", "$v.0"):
            return (c["env"]["$v"], "free:" + c["env"]["$v"])
        raise AnalysisGap("name expression %r" % (n,))

    def sort(self, s, c):
        if s in ("General", "Integer", "Symbol"):
            return s
        if s == ("place", "$z.sort"):
            return c["env"]["$z"][1]
        raise AnalysisGap("sort expression %r" % (s,))

    def operand(self, o, c):
        if isinstance(o, tuple) and o and o[0] == "param" and o[1] in c["env"]:
            return c["env"][o[1]]
        if o == ("ctor", "Term::PrecomputedTerm", (("0", ("ctor", "PrecomputedTerm::Numeral", (("0", ("lit", 0)),))),)):
            return ("num", 0)
        raise AnalysisGap("operand %r" % (o,))

    def taken(self, t, c):
        t = self._strip(t)
        if t[0] == "upd" and t[2] == "insert":
            return self.taken(t[1], c) | self.elem(t[3][0], c)
        if t[0] == "upd" and t[2] == "extend":
            return self.taken(t[1], c) | self.elem(t[3][0], c)
        if t[0] == "upd" and t[2] == "push":
            return self.taken(t[1], c) | self.elem(t[3][0], c)
        if t[0] == "call" and t[1] == "Iterator::chain" and len(t[2]) == 2:
            return self.taken(t[2][0], c) | self.taken(t[2][1], c)
        if t[0] == "call" and t[1] == "iter::once" and len(t[2]) == 1:
            return self.elem(t[2][0], c)
        if t[0] == "call" and t[1] in ("IndexSet::new", "Vec::new"):
            return set()
        raise AnalysisGap("taken-set expression %r" % (t[:2],))

    def _strip(self, t):
        while isinstance(t, tuple) and t and t[0] == "acc":
            t = t[1]
        return t

    def elem(self, e, c):
        e = self._strip(e)
        if e == ("param", "$z"):
            return {c["env"]["$z"][0][0]}
        if e[0] == "ctor" and e[1] == "Variable":
            n = dict(e[2])["name"]
            if n[0] in ("each", "at") and n[1][0] == "call" and n[1][1] == "Term::variables":
                src = n[1][2][0]
                t = c["env"]["$t"] if src[0] == "ctor" else self.operand(src, c)
                return set(term_vars(t))
            if n[0] in ("each", "at") and n[1][0] == "call" and n[1][1] == "Formula::variables":
                f = n[1][2][0]
                if f[0] == "call" and f[1].endswith("::val"):
                    sub = self.sub_formula(f, c)
                    return {self.display(v) for v in all_vars(sub)}
        raise AnalysisGap("taken-set element %r" % (e[:2],))

    def display(self, v):
        (code, _), srt = v
        if self.suffix:
            return code + {"General": "", "Integer": "$i", "Symbol": "$s"}[srt]
        return code

    def sub_formula(self, f, c):
        """the concrete formula of a `val(OPERAND, Variable{..})` call appearing in a taken-set expression"""
        operand = self.operand(f[2][0], c)
        nf = ftpl.NF()
        v = nf.var(f[2][1])
        key = (repr(operand), repr(v))
        if key not in c["formulas"]:
            zz = (self.name(v[1], c), self.sort(v[2], c))
            c["formulas"][key] = self.val(operand, zz)
        return c["formulas"][key]

    def inst(self, f, c):
        k = f[0]
        if k == "Q":
            vs = [(self.name(v[1], c), self.sort(v[2], c)) for v in f[2]]
            return ("Q", f[1], vs, self.inst(f[3], c))
        if k in ("and", "or"):
            return (k, [self.inst(x, c) for x in f[1]])
        if k in ("eq", "ne"):
            return ("cmp", k, self.term(f[1][0], c), self.term(f[1][1], c))
        if k in ("lt", "le"):
            return ("cmp", k, self.term(f[1], c), self.term(f[2], c))
        if k == "val":
            operand = self.operand(f[1], c)
            key = (repr(operand), repr(f[2]))
            if key not in c["formulas"]:
                zz = (self.name(f[2][1], c), self.sort(f[2][2], c))
                c["formulas"][key] = self.val(operand, zz)
            return c["formulas"][key]
        if k == "not":
            return ("not", self.inst(f[1], c))
        if k == "imp":
            return ("imp", self.inst(f[1], c), self.inst(f[2], c))
        if k in ("true", "false"):
            return (k,)
        raise AnalysisGap("template node %r" % (k,))

    def term(self, t, c):
        k = t[0]
        if k == "var":
            return ("v", self.name(t[1], c), self.sort(t[2], c))
        if k == "num":
            return ("n", t[1] if not isinstance(t[1], tuple) else c["env"].get("$n"))
        if k == "op":
            return ("op", t[1], self.term(t[2], c), self.term(t[3], c))
        if k in ("inf", "sup"):
            return ("c", k)
        if k == "sym":
            return ("c", "sym")
        raise AnalysisGap("template term %r" % (k,))


def all_vars(f):
    """every variable occurrence and binder of a concrete formula: ((code, ref), sort)"""
    k = f[0]
    if k == "Q":
        return list(f[2]) + all_vars(f[3])
    if k in ("and", "or"):
        out = []
        for x in f[1]:
            out += all_vars(x)
        return out
    if k == "cmp":
        return tvars(f[2]) + tvars(f[3])
    if k == "atom":
        out = []
        for t in f[2]:
            out += tvars(t)
        return out
    if k == "not":
        return all_vars(f[1])
    if k == "imp":
        return all_vars(f[1]) + all_vars(f[2])
    return []


def tvars(t):
    if t[0] == "v":
        return [(t[1], t[2])]
    if t[0] == "op":
        return tvars(t[2]) + tvars(t[3])
    return []


def captures(f, scope_code=None, scope_ref=None, out=None, node=[0]):
    """list of occurrences whose binder differs between the code naming and the reference naming"""
    scope_code = scope_code or []
    scope_ref = scope_ref or []
    out = [] if out is None else out
    k = f[0]
    if k == "Q":
        node[0] += 1
        nid = node[0]
        sc = {(n[0], s): nid for n, s in f[2]}
        sr = {n[1]: nid for n, s in f[2]}
        # two binders of one quantifier with the same (name, sort): the second shadows the first
        if len(sc) != len(f[2]):
            out.append(("duplicate-binder", sorted((n[0], s) for n, s in f[2])))
        captures(f[3], scope_code + [sc], scope_ref + [sr], out, node)
        return out
    if k in ("and", "or"):
        for x in f[1]:
            captures(x, scope_code, scope_ref, out, node)
        return out
    if k == "not":
        return captures(f[1], scope_code, scope_ref, out, node)
    if k == "imp":
        captures(f[1], scope_code, scope_ref, out, node)
        return captures(f[2], scope_code, scope_ref, out, node)
    occs = all_vars(f) if k in ("cmp", "atom") else []
    for (code, ref), srt in occs:
        bc = None
        for sc in reversed(scope_code):
            if (code, srt) in sc:
                bc = sc[(code, srt)]
                break
        br = None
        for sr in reversed(scope_ref):
            if ref in sr:
                br = sr[ref]
                break
        if bc != br:
            out.append(("capture", code, srt, "bound by another quantifier" if bc is not None else "escapes its quantifier"))
    return out


def render(f):
    k = f[0]
    if k == "Q":
        return "%s %s (%s)" % (f[1].lower(), " ".join(n[0] + {"General": "", "Integer": "$i", "Symbol": "$s"}[s] for n, s in f[2]), render(f[3]))
    if k in ("and", "or"):
        return (" %s " % k).join(render(x) for x in f[1])
    if k == "cmp":
        return "%s %s %s" % (rt(f[2]), {"eq": "=", "ne": "!=", "lt": "<", "le": "<="}[f[1]], rt(f[3]))
    if k == "atom":
        return "%s(%s)" % (f[1], ", ".join(rt(t) for t in f[2]))
    if k == "not":
        return "not " + render(f[1])
    if k == "imp":
        return "(%s) -> %s" % (render(f[1]), render(f[2]))
    return "#" + k


def rt(t):
    if t[0] == "v":
        return t[1][0] + {"General": "", "Integer": "$i", "Symbol": "$s"}[t[2]]
    if t[0] == "n":
        return str(t[1])
    if t[0] == "op":
        return "(%s %s %s)" % (rt(t[2]), {"Add": "+", "Subtract": "-", "Multiply": "*"}.get(t[1], t[1]), rt(t[3]))
    return "#" + str(t[1])


def terms(depth, leaves, unary, binary):
    cur = list(leaves)
    allt = list(leaves)
    for _ in range(depth):
        nxt = []
        for u in unary:
            for a in allt:
                nxt.append(("neg", a))
        for o in binary:
            for a, b in itertools.product(allt, repeat=2):
                nxt.append(("bin", o, a, b))
        seen = set(map(repr, allt))
        for t in nxt:
            if repr(t) not in seen:
                allt.append(t)
                seen.add(repr(t))
    return allt
