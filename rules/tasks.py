"""Shared extraction for the verification tasks: Problem builder chains, theory pipelines, role closures."""
from .facts import AnalysisGap, callee, callee_generic, ctor_of, local_id_of, local_of, strip, walk
import re

from . import flow, hq


def name_template(arg):
    s = strip(arg)
    if s.get("k") == "Lit":
        return s["v"]
    for n in walk(arg):
        if n.get("mac") == "format" and "mac_src" in n:
            t = hq.macro_template(n["mac_src"])
            # `{i}` names a local, not output: one spelling for named and positional placeholders
            return re.sub(r"\{[A-Za-z_][A-Za-z0-9_]*(:[^{}]*)?\}", lambda m_: "{" + (m_.group(1) or "") + "}", t) if isinstance(t, str) else t
    return None


def problem_chains(body):
    """Every `Problem::with_name(..)` builder chain in a function body:
    {name, conds, steps: [(method, [arg nodes], call node)], root, top}"""
    pm = hq.parent_map(body)
    cond_of = {id(n): c for n, c in flow.walk_cond(body)}
    out = []
    for c in hq.calls(body, "Problem::with_name"):
        steps = []
        cur = c
        while True:
            p = pm.get(id(cur))
            while p is not None and ((p.get("k") in ("DropTemps", "Use", "Ref") and p.get("e") is cur) or
                                     (p.get("k") == "Block" and p.get("expr") is cur and "mac_src" not in p) or
                                     (p.get("inlined") is cur and p.get("k") in ("Call", "MethodCall"))):
                # the value of a block is its tail; the value of a call of a later-extracted helper is the value of the helper's body
                cur = p
                p = pm.get(id(cur))
            if p is not None and p.get("k") == "MethodCall" and p.get("recv") is cur:
                steps.append((p["method"], p["args"], p))
                cur = p
                continue
            break
        out.append({"name": name_template(c["args"][0]), "conds": cond_of.get(id(c), ()), "steps": steps, "root": c, "top": cur})
    return out


def closure_role(cl):
    """For an `add_theory` annotate closure |i, formula| AnnotatedFormula { name, role, formula }: (name template, role, formula passthrough)."""
    cl = strip(cl)
    if cl.get("k") != "Closure":
        return None
    b = strip(cl["body"])
    if b.get("k") != "Struct":
        return None
    role = name = None
    passthrough = False
    params = [p.get("name") for p in cl["params"]]
    for f in b["fields"]:
        if f["name"] == "role":
            c = hq.const_of(f["e"])
            role = c[2] if c and c[0] == "variant" else None
        elif f["name"] == "name":
            name = name_template(f["e"])
        elif f["name"] == "formula":
            passthrough = local_of(f["e"]) in params
    return (name, role, passthrough)


def origin_of_local(body, local_id, seen=None):
    """The set of `self.x` places / calls a local's value derives from (through its whole pipeline)."""
    seen = seen or set()
    if local_id in seen:
        return set()
    seen.add(local_id)
    out = set()
    for conds, s, n in flow.pipeline(body, local_id):
        out |= set(flow.places_in(s))
        for c in flow.callees_in(s):
            if c.startswith(("StrongEquivalenceTask::", "ExternalEquivalenceTask::")):
                out.add(c)
        for name, lid in flow.locals_in(s):
            if lid != local_id:
                out |= origin_of_local(body, lid, seen)
    return out


def decomposition_dispatch(fx, body):
    """How a task body turns one problem into its sub-problems: [(strategy pattern, [methods called])] from a `match` over Decomposition in the
    body itself, or - when the body calls Problem::decompose(strategy) - from the match inside Problem::decompose."""
    from .facts import callee_generic, walk
    from . import hq

    def table(b_):
        disp = []
        for m in hq.matches_over(b_, "command_line::arguments::Decomposition"):
            for a in m["arms"]:
                cs = [hq.last(c) for c in (callee_generic(n) for n in walk(a["body"]) if n.get("k") == "MethodCall") if c]
                disp.append((hq.pat_key(a["pat"]), cs))
        return sorted(disp)
    own = table(body)
    if own:
        return own
    if hq.calls(body, "Problem::decompose"):
        return table(fx.fn("Problem::decompose")["body"])
    return []
