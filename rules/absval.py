"""ABSVAL: evaluation of a symbolic term (rules/sym.py) over a small concrete model of its inputs.

Used where a function only inspects its inputs through positions and emptiness (the accessors of command_line::files::Files): the inputs are
lists of distinct tokens of bounded length, every length combination is enumerated, and the function's term is evaluated on each with the
semantics of the handful of std calls below.  Anything else raises Unknown (reported as an analysis gap, never guessed)."""
from . import leaves


class Unknown(Exception):
    pass


NONE = ("None",)


def some(v):
    return ("Some", v)


def evaluate(t, env):
    """env: {place term -> python value}"""
    if not isinstance(t, tuple) or not t:
        raise Unknown("term %r" % (t,))
    if t in env:
        return env[t]
    k = t[0]
    if k == "val":
        return t[1]
    if k == "lit":
        return t[1]
    if k == "ctor":
        if t[1] == "Option::Some":
            return some(evaluate(dict(t[2])["0"], env))
        if t[1] == "Option::None":
            return NONE
        return ("ctor", t[1], tuple((f, evaluate(v, env)) for f, v in t[2]))
    if k == "list":
        return ("tuple", tuple(evaluate(x, env) for x in t[1]))      # a tuple expression (the evaluator writes tuples as lists)
    if k == "closure":
        return ("closure", t[1], t[2], env)
    if k == "ctorfn":
        return ("ctorfn", t[1])
    if k == "if":
        return evaluate(t[2] if truth(evaluate(t[1], env)) else t[3], env)
    if k == "match" and len(t) == 3:
        v = evaluate(t[1], env)
        for pk, body in t[2]:
            if pat_matches(leaves.parse_pat(pk), v):
                return evaluate(body, env)
        raise Unknown("no arm of match takes %r" % (v,))
    if k == "matches":
        v = evaluate(t[1], env)
        return any(pat_matches(leaves.parse_pat(pk), v) for pk in t[2])
    if k == "proj":
        v = evaluate(t[1], env)
        for head, f in t[2]:
            v = project(v, head, f)
        return v
    if k == "op" and t[1] == "Not":
        return not truth(evaluate(t[2], env))
    if k == "op" and t[1] == "Neg":
        return -evaluate(t[2], env)
    if k == "bin":
        op = t[1]
        if op == "And":
            return truth(evaluate(t[2], env)) and truth(evaluate(t[3], env))
        if op == "Or":
            return truth(evaluate(t[2], env)) or truth(evaluate(t[3], env))
        a, b = evaluate(t[2], env), evaluate(t[3], env)
        try:
            return {"Eq": lambda: a == b, "Ne": lambda: a != b, "Lt": lambda: a < b, "Le": lambda: a <= b, "Gt": lambda: a > b, "Ge": lambda: a >= b,
                    "Add": lambda: a + b, "Sub": lambda: a - b, "Mul": lambda: a * b}[op]()
        except (KeyError, TypeError):
            raise Unknown("binary %s on %r, %r" % (op, a, b))
    if k == "returns":
        for conds, v in t[1]:
            if conds == ("fallthrough",):
                return evaluate(v, env)
            if all(cond_holds(c, pol, env) for c, pol in conds):
                return evaluate(v, env)
        raise Unknown("returns without fallthrough")
    if k == "call":
        return call(t[1], [evaluate(a, env) if not (isinstance(a, tuple) and a[:1] in (("closure",), ("ctorfn",), ("fn",))) else evaluate_fn(a, env) for a in t[2]])
    if k == "try":
        v = evaluate(t[1], env)
        if isinstance(v, tuple) and v[:1] == ("Some",):
            return v[1]
        raise Unknown("`?` on %r" % (v,))
    raise Unknown("term kind %s" % k)


def evaluate_fn(a, env):
    if a[0] == "closure":
        return ("closure", a[1], a[2], env)
    return a


def cond_holds(c, pol, env):
    if isinstance(c, tuple) and c[:1] == ("arm",):
        return pat_matches(leaves.parse_pat(c[2]), evaluate(c[1], env)) == pol
    return truth(evaluate(c, env)) == pol


def truth(v):
    if isinstance(v, bool):
        return v
    raise Unknown("not a boolean: %r" % (v,))


def project(v, head, f):
    if head == "Option::Some" and isinstance(v, tuple) and v[:1] == ("Some",):
        return v[1]
    if head == "tuple" and isinstance(v, tuple) and v[:1] == ("tuple",):
        return v[1][int(f)]
    if isinstance(v, tuple) and v[:1] == ("ctor",) and v[1] == head:
        return dict(v[2])[f]
    raise Unknown("projection %s.%s of %r" % (head, f, v))


def pat_matches(pt, v):
    k = pt[0]
    if k == "wild":
        return True
    if k == "or":
        return any(pat_matches(q, v) for q in pt[1])
    if k == "lit":
        return v == pt[1]
    if k == "ctor":
        if pt[1] == "Option::Some":
            return isinstance(v, tuple) and v[:1] == ("Some",) and all(pat_matches(q, v[1]) for _, q in pt[2])
        if pt[1] == "Option::None":
            return v == NONE
        if isinstance(v, tuple) and v[:1] == ("ctor",):
            return v[1] == pt[1] and all(pat_matches(q, dict(v[2]).get(f)) for f, q in pt[2])
        raise Unknown("pattern %s against %r" % (pt[1], v))
    if k == "tuple":
        return isinstance(v, tuple) and v[:1] == ("tuple",) and all(pat_matches(q, x) for q, x in zip(pt[1], v[1]))
    raise Unknown("pattern %r" % (pt,))


def apply(f, args):
    if isinstance(f, tuple) and f[:1] == ("closure",):
        _, params, body, env = f
        if len(params) != len(args) or any("/" in p for p in params):
            raise Unknown("closure with pattern parameters")
        from . import sym
        return evaluate(sym.subst(body, {p: ("val", a) for p, a in zip(params, args)}), env)
    if isinstance(f, tuple) and f[:1] == ("ctorfn",):
        if f[1] == "Option::Some":
            return some(args[0])
        return ("ctor", f[1], tuple((str(i), a) for i, a in enumerate(args)))
    if isinstance(f, tuple) and f[:1] == ("fn",) and len(args) == 1 and isinstance(f[1], str) and f[1].split("::")[-1] in ("as_path", "as_ref", "as_str", "as_slice", "as_deref", "clone", "to_owned", "deref", "borrow"):
        return args[0]      # a borrowed / re-typed view of the same value (`Option<&PathBuf>` -> `Option<&Path>`)
    raise Unknown("apply %r" % (f,))


def call(name, a):
    def is_list(x):
        return isinstance(x, list)
    if name in ("slice::first", "Vec::first") and is_list(a[0]):
        return some(a[0][0]) if a[0] else NONE
    if name in ("slice::last", "Vec::last") and is_list(a[0]):
        return some(a[0][-1]) if a[0] else NONE
    if name in ("slice::get", "Vec::get") and is_list(a[0]) and isinstance(a[1], int):
        return some(a[0][a[1]]) if 0 <= a[1] < len(a[0]) else NONE
    if name in ("Vec::is_empty", "slice::is_empty") and is_list(a[0]):
        return not a[0]
    if name in ("Vec::len", "slice::len") and is_list(a[0]):
        return len(a[0])
    if name in ("slice::iter", "Vec::iter", "IntoIterator::into_iter") and is_list(a[0]):
        return a[0]
    if name in ("Iterator::next",) and is_list(a[0]):
        return some(a[0][0]) if a[0] else NONE
    if name in ("Iterator::nth",) and is_list(a[0]) and isinstance(a[1], int):
        return some(a[0][a[1]]) if 0 <= a[1] < len(a[0]) else NONE
    if name in ("Iterator::skip",) and is_list(a[0]) and isinstance(a[1], int):
        return a[0][a[1]:]
    opt = isinstance(a[0], tuple) and a[0][:1] in (("Some",), ("None",)) if a else False
    if opt:
        o = a[0]
        if name == "Option::map":
            return some(apply(a[1], [o[1]])) if o != NONE else NONE
        if name == "Option::and_then":
            return apply(a[1], [o[1]]) if o != NONE else NONE
        if name == "Option::or_else":
            return o if o != NONE else apply(a[1], [])
        if name == "Option::or":
            return o if o != NONE else a[1]
        if name == "Option::is_some":
            return o != NONE
        if name == "Option::is_none":
            return o == NONE
        if name == "Option::xor":
            return o if (o != NONE and a[1] == NONE) else (a[1] if o == NONE else NONE)
        if name == "Option::filter":
            return o if o != NONE and truth(apply(a[1], [o[1]])) else NONE
        if name in ("Option::map_or",):
            return apply(a[2], [o[1]]) if o != NONE else a[1]
        if name in ("Option::map_or_else",):
            return apply(a[2], [o[1]]) if o != NONE else apply(a[1], [])
        if name in ("Option::unwrap_or",):
            return o[1] if o != NONE else a[1]
    raise Unknown("call %s%r" % (name, tuple(a)))
