"""Printer extraction: Display impls of the three formatters evaluated to terms + ordered output effects."""
import re

from .facts import AnalysisGap
from . import sym

FILES = {
    "tptp": "src/formatting/fol/sigma_0/tptp.rs",
    "fol": "src/formatting/fol/sigma_0/default.rs",
    "asp": "src/formatting/asp/mini_gringo/default.rs",
}


class Printer:
    def __init__(self, body, value, out):
        self.body = body
        self.value = value
        self.out = out


def display_impl(fx, which, ty, trait="std::fmt::Display", name="fmt"):
    """Body of `impl <trait> for Format<'_, ty>` in the given formatter file."""
    file = FILES[which]
    c = [b for b in fx.body_list if b["file"] == file and b["name"] == name and b.get("impl", {}).get("trait", "") == trait
         and re.search(r"::%s>$" % re.escape(ty), b.get("impl", {}).get("self_ty", ""))]
    if len(c) != 1:
        raise AnalysisGap("printer anchor: %s for Format<%s> in %s: found %d" % (trait, ty, file, len(c)))
    return c[0]


def inherent(fx, which, ty, name):
    file = FILES[which]
    c = [b for b in fx.body_list if b["file"] == file and b["name"] == name and "trait" not in b.get("impl", {})
         and re.search(r"::%s>$" % re.escape(ty), b.get("impl", {}).get("self_ty", ""))]
    if len(c) != 1:
        raise AnalysisGap("printer anchor: %s::%s in %s: found %d" % (ty, name, file, len(c)))
    return c[0]


def evaluate(fx, body):
    ev = sym.Eval(fx, inline_depth=0)
    v = ev.function(body)
    return Printer(body, v, list(ev.out))


def token_table(v):
    """match self.0 { Variant => write!(f, "tok") | "tok" } -> {pattern: template}; None if not of that shape."""
    if v[0] != "match":
        return None
    out = {}
    for a in v[2]:
        val = a[-1]
        if val[0] == "write":
            out[a[0]] = val[1]
        elif val[0] == "lit":
            out[a[0]] = val[1]
        else:
            out[a[0]] = None
    return out


def slots(template):
    """Split a format template into literal pieces and slots: ['lit', '{}', 'lit', ...]"""
    parts = re.split(r"(\{[^{}]*\})", template.replace("{{", "\x00").replace("}}", "\x01"))
    return [p.replace("\x00", "{").replace("\x01", "}") for p in parts if p != ""]
