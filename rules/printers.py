"""Printer extraction: Display impls of the three formatters evaluated to terms + ordered output effects."""
import re

from .facts import AnalysisGap
from . import sym

FILES = {
    "tptp": "src/formatting/fol/sigma_0/tptp.rs",
    "fol": "src/formatting/fol/sigma_0/default.rs",
    "asp": "src/formatting/asp/mini_gringo/default.rs",
}


class Printer:
    def __init__(self, body, value, out):
        self.body = body
        self.value = value
        self.out = out


def display_impl(fx, which, ty, trait="std::fmt::Display", name="fmt"):
    """Body of `impl <trait> for Format<'_, ty>` in the given formatter file."""
    file = FILES[which]
    c = [b for b in fx.body_list if b["file"] == file and b["name"] == name and b.get("impl", {}).get("trait", "") == trait
         and re.search(r"::%s>$" % re.escape(ty), b.get("impl", {}).get("self_ty", ""))]
    if len(c) != 1:
        raise AnalysisGap("printer anchor: %s for Format<%s> in %s: found %d" % (trait, ty, file, len(c)))
    return c[0]


def inherent(fx, which, ty, name):
    file = FILES[which]
    c = [b for b in fx.body_list if b["file"] == file and b["name"] == name and "trait" not in b.get("impl", {})
         and re.search(r"::%s>$" % re.escape(ty), b.get("impl", {}).get("self_ty", ""))]
    if len(c) != 1:
        raise AnalysisGap("printer anchor: %s::%s in %s: found %d" % (ty, name, file, len(c)))
    return c[0]


class _Value(tuple):
    """the value of a printer body; knows the writes it was evaluated with (for rules that were handed the value only)"""
    out = ()


def evaluate(fx, body):
    ev = sym.Eval(fx, inline_depth=0)
    v = ev.function(body)
    if isinstance(v, tuple):
        v = _Value(v)
        v.out = list(ev.out)
    return Printer(body, v, list(ev.out))


def arm_writes(out):
    """{pattern of the receiver's arm: [(further conditions, loops, write)]} from the recorded writes: what each variant prints, whether the
    arms are a `match` value, early `return write!(..)`s or statements"""
    tab = {}
    for conds, loops, item in out:
        if item[0] != "write":
            continue
        arms = [i for i, c in enumerate(conds) if len(c) == 2 and c[1] is True and isinstance(c[0], tuple) and c[0][:1] == ("arm",)]
        if not arms:
            continue
        i = arms[0]
        rest = tuple((c[0][1], c[1]) if (len(c) == 2 and isinstance(c[0], tuple) and c[0][:1] == ("survived",)) else c for c in conds[:i] + conds[i + 1:])
        tab.setdefault(conds[i][0][2], []).append((rest, loops, item))
    return tab


def token_table(v):
    """match self.0 { Variant => write!(f, "tok") | "tok" } -> {pattern: template}; None if not of that shape."""
    if v[0] != "match":
        aw = arm_writes(getattr(v, "out", ()))
        if not aw:
            return None
        return {pat: (ws[0][2][1] if len(ws) == 1 and not ws[0][0] and not ws[0][1] else None) for pat, ws in aw.items()}
    out = {}
    for a in v[2]:
        val = a[-1]
        if val[0] == "write":
            out[a[0]] = val[1]
        elif val[0] == "lit":
            out[a[0]] = val[1]
        elif val[:2] == ("ctor", "Result::Ok"):
            out[a[0]] = ""      # `Ok(())` in the place of a write: nothing is printed
        else:
            out[a[0]] = None
    return out


def slots(template):
    """Split a format template into literal pieces and slots: ['lit', '{}', 'lit', ...]"""
    parts = re.split(r"(\{[^{}]*\})", template.replace("{{", "\x00").replace("}}", "\x01"))
    return [p.replace("\x00", "{").replace("\x01", "}") for p in parts if p != ""]


# ---------------------------------------------------------------------------------------------------------------------------------------
# What a printer writes, as text: the writes of a Display impl flattened to pieces (literal text and holes), so that rules can ask "what is
# printed when <these facts> hold" instead of reading the writes one by one.  Spellings that print the same text give the same answer:
# one write or several, a separator kept in a local (`let sep = if i > 0 { ", " } else { "" }`), a table printed through its own
# `Format<T>` impl or through a match in place, named or positional placeholders.

class Undecided(Exception):
    pass


class Text:
    def __init__(self, ev, entries):
        self.ev = ev
        self.entries = entries      # [(conds, loop nest, pieces)]; conds: ((term, polarity), ..); pieces: str | ('hole', spec, term)

    def only(self, keep):
        """the part of the text written by the entries keep(loop nest, pieces) selects (conditions of the others are then never asked)"""
        t = Text(self.ev, [e for e in self.entries if keep(e[1], e[2])])
        t.ev_arms = self.ev_arms
        return t

    def under(self, decide):
        """The text written when `decide` answers every condition met: [(loop nest, [pieces])], adjacent literal text joined.
        decide(term) -> True / False / None; a None (nothing known) raises Undecided."""
        segs = []
        for conds, nest, pieces in self.entries:
            take = True
            for c, pol in conds:
                r = self._decide(c, decide)
                if r is None:
                    raise Undecided(c)
                if r is not pol:
                    take = False
                    break
            if not take:
                continue
            if not segs or segs[-1][0] != nest:
                segs.append((nest, []))
            for p in pieces:
                if isinstance(p, str) and segs[-1][1] and isinstance(segs[-1][1][-1], str):
                    segs[-1][1][-1] += p
                elif p != "":
                    segs[-1][1].append(p)
        return [(n, ps) for n, ps in segs if ps]

    def _decide(self, c, decide):
        if isinstance(c, tuple) and c[:1] == ("arm",) and len(c) == 3 and c[2] == "_":
            # the catch-all arm is taken when no arm before it is
            sibs = self.ev_arms.get(c[1])
            if not sibs or any(s != sibs[0] for s in sibs):
                return None
            for pat, guarded in sibs[0]:
                if pat == "_":
                    return True
                if guarded:
                    return None
                r = decide(("arm", c[1], pat))
                if r is None:
                    return None
                if r:
                    return False
            return None
        return decide(c)


def string_value(t):
    """The text a string-building term stands for, when it is built from literals only (`repeat_n("a", 2)` joined by " * " is "a * a")"""
    def items(x):
        if not isinstance(x, tuple):
            return None
        if x[:1] == ("list",) and all(isinstance(y, tuple) and y[:1] == ("lit",) and isinstance(y[1], str) for y in x[1]):
            return [y[1] for y in x[1]]
        if x[:2] == ("call", "iter::repeat_n") and len(x[2]) == 2 and x[2][0][:1] == ("lit",) and isinstance(x[2][0][1], str) \
                and x[2][1][:1] == ("lit",) and isinstance(x[2][1][1], int) and not isinstance(x[2][1][1], bool):
            return [x[2][0][1]] * x[2][1][1]
        if x[:2] == ("call", "Iterator::take") and len(x[2]) == 2 and x[2][0][:2] == ("call", "iter::repeat") and len(x[2][0][2]) == 1 \
                and x[2][0][2][0][:1] == ("lit",) and isinstance(x[2][0][2][0][1], str) and x[2][1][:1] == ("lit",) and isinstance(x[2][1][1], int):
            return [x[2][0][2][0][1]] * x[2][1][1]
        if x[:2] in (("call", "Itertools::intersperse"), ("call", "Iterator::intersperse")) and len(x[2]) == 2 and x[2][1][:1] == ("lit",) and isinstance(x[2][1][1], str):
            inner = items(x[2][0])
            if inner is None:
                return None
            out = []
            for i_, y in enumerate(inner):
                out += ([x[2][1][1]] if i_ else []) + [y]
            return out
        return None
    if not isinstance(t, tuple):
        return None
    if t[:1] == ("lit",) and isinstance(t[1], str):
        return t[1]
    if t[:2] in (("call", "Itertools::join"), ("call", "slice::join")) and len(t[2]) == 2 and t[2][1][:1] == ("lit",) and isinstance(t[2][1][1], str):
        inner = items(t[2][0])
        return None if inner is None else t[2][1][1].join(inner)
    if t[:2] in (("call", "Iterator::collect"), ("call", "String::from_iter"), ("call", "Vec::concat"), ("call", "slice::concat")) and len(t[2]) == 1:
        inner = items(t[2][0])
        return None if inner is None else "".join(inner)
    inner = items(t)          # the evaluator drops `collect`: a sequence of pieces where text is expected is their concatenation
    return None if inner is None else "".join(inner)


def flat(fx, body, inline=(), setup=None):
    """The Text of a printer body.  `inline`: the node types T whose own printer `Format<T>` is a table of words and is read in place.
    setup(ev) configures the evaluator before the body is run (e.g. ev.loop_args to specialise a loop on one element)."""
    from . import leaves
    ev = sym.Eval(fx, inline_depth=0)
    if setup:
        setup(ev)
    ev.function(body)
    entries = []
    arms = {}

    def nrm(t, mapping):
        return leaves.norm(leaves.replace(t, mapping))

    def table_of(term):
        ty = ev.ctor_types.get(term, "")
        m = re.search(r"::Format<'_, (?:[\w:]+::)?(\w+)>$", ty)
        if not (m and m.group(1) in inline and term[:2] == ("ctor", "Format")):
            return None
        c2 = [b_ for b_ in getattr(fx, "all_bodies", fx.body_list) if b_["name"] == "fmt"
              and b_.get("impl", {}).get("trait", "") == "std::fmt::Display" and b_.get("impl", {}).get("self_ty", "") == ty]
        if len(c2) != 1:
            return None
        b2 = c2[0]
        e2 = sym.Eval(fx, inline_depth=0)
        e2.function(b2, [term])
        rows = []
        for conds, loops, item in e2.out:
            if loops or item[0] != "write" or item[2] or len(conds) != 1 or conds[0][0][:1] != ("arm",) or conds[0][1] is not True:
                return None
            rows.append((conds[0], item[1]))
        for sc, sibs in e2.match_arms.items():
            ev.match_arms.setdefault(sc, []).extend(sibs)
        return rows or None

    def expand(arg, spec):
        """[(extra conditions, pieces)] for one argument"""
        if spec == "{}" and string_value(arg) is not None:
            return [((), [string_value(arg)])]
        if isinstance(arg, tuple) and arg[:1] == ("format",) and len(arg) == 3 and spec == "{}":
            # text built by format!(..) and written through a `{}`: its pieces are written in place
            inner = sym.anon_format(arg)
            alts_ = [((), [])]
            args_ = list(inner[2])
            for part in slots(inner[1]):
                if re.fullmatch(r"\{[^{}]*\}", part):
                    if not args_:
                        return [((), [("hole", spec, arg)])]
                    ex_ = expand(args_.pop(0), part)
                    alts_ = [(cs + cs2, ps + ps2) for cs, ps in alts_ for cs2, ps2 in ex_]
                else:
                    alts_ = [(cs, ps + [part]) for cs, ps in alts_]
            return alts_
        if isinstance(arg, tuple) and arg[:1] == ("if",) and len(arg) == 4:
            a, b = expand(arg[2], spec), expand(arg[3], spec)
            if True:
                return [(((arg[1], True),) + cs, ps) for cs, ps in a] + [(((arg[1], False),) + cs, ps) for cs, ps in b]
        if isinstance(arg, tuple) and arg[:1] == ("match",) and len(arg) == 3 and all(len(a_) == 2 for a_ in arg[2]):
            rows = [(a_[0], expand(a_[1], spec)) for a_ in arg[2]]
            if all(isinstance(p, str) for _, r in rows for _, ps in r for p in ps):
                return [(((("arm", arg[1], pat), True),) + cs, ps) for pat, r in rows for cs, ps in r]
        if spec == "{}":
            rows = table_of(arg)
            if rows:
                return [((c,), [w]) for c, w in rows]
        return [((), [("hole", spec, arg)])]

    for conds, loops, item in ev.out:
        if item[0] != "write":
            continue
        nest, mapping = leaves.loop_nest(loops)
        item = sym.anon_format(item)
        alts = [((), [])]
        args = list(item[2])
        for part in slots(item[1]):
            if re.fullmatch(r"\{[^{}]*\}", part):
                if not args:
                    raise AnalysisGap("printer text: more placeholders than arguments in %r" % (item[1],))
                ex = expand(args.pop(0), part)
                alts = [(cs + cs2, ps + ps2) for cs, ps in alts for cs2, ps2 in ex]
            else:
                alts = [(cs, ps + [part]) for cs, ps in alts]
        for cs, ps in alts:
            unsurvived = lambda c_: (c_[0][1], c_[1]) if (isinstance(c_[0], tuple) and c_[0][:1] == ("survived",) and len(c_[0]) == 2) else c_
            allc = tuple((nrm(unsurvived(c_)[0], mapping), c_[1]) for c_ in tuple(conds) + cs if len(c_) == 2)
            entries.append((allc, tuple(leaves.norm(n) for n in nest), [p if isinstance(p, str) else ("hole", p[1], nrm(p[2], mapping)) for p in ps]))
    t = Text(ev, entries)
    # sibling arms, keyed by the normalised scrutinee as the conditions are
    t.ev_arms = {}
    for sc, sibs in ev.match_arms.items():
        for mapping in [leaves.loop_nest(l)[1] for _, l, _ in ev.out] or [{}]:
            t.ev_arms.setdefault(nrm(sc, mapping), [])
            for s_ in sibs:
                if s_ not in t.ev_arms[nrm(sc, mapping)]:
                    t.ev_arms[nrm(sc, mapping)].append(s_)
    return t


def sort_suffixes(fx, which, ty, sorts=("Sort::General", "Sort::Integer", "Sort::Symbol")):
    """{sort: the text written after the name of a Variable / FunctionConstant of that sort} (None where it is not `name` + text)"""
    from . import leaves
    b = display_impl(fx, which, ty)
    T_ = flat(fx, b)
    SORT_, NAME_ = leaves.norm(("place", "self.0.sort")), leaves.norm(("place", "self.0.name"))
    out = {}
    for s_ in sorts:
        try:
            text = T_.under(lambda c: (c[2] == s_) if (c[:1] == ("arm",) and c[1] == SORT_) else sym.decide_bool(c))
        except Undecided:
            text = None
        ok = text is not None and len(text) == 1 and text[0][0] == () and len(text[0][1]) in (1, 2) and text[0][1][0] == ("hole", "{}", NAME_) and all(isinstance(x, str) for x in text[0][1][1:])
        out[s_] = ("".join(text[0][1][1:]) if ok else None)
    return out
