"""LEAVES: the decision tree of a symbolic value.

`leaves(term)` enumerates the paths through the `phi` / `match` / `if` / `matches!` / boolean-operator structure of a term produced by
rules/sym.py.  A leaf is (tests, value): `tests` is the conjunction of atomic facts that hold on the path, `value` the term at the end of it.
Atomic facts are stated on *normalised subjects*, so that the same fact reads the same however the code reaches it:

  ('is', subject, 'Enum::Variant')        the subject is that variant
  ('eq', subject, literal)
  ('not', (facts...))                     the conjunction of these facts does not hold (the negative side of matches! / a refutable test)
  ('cond', term, polarity)                an opaque boolean condition
  ('guard',)                              an arm guard (opaque)

Subjects are normalised by `norm`: nested projections are flattened, projections through literal constructors / tuples are resolved, and
`Result::map` / `Option::map` / `map_err` / `as_ref` with a closure literal are seen through (x.map(f) is Ok(P) iff x is Ok(y) and f(y) matches P).
"""
from . import sym

WILD = ("wild",)


# ------------------------------------------------------------------ pattern keys (hq.pat_key) -> trees
def parse_pat(key):
    p = _P(key)
    t = p.alt_list()
    p.ws()
    if p.i != len(p.s):
        return ("opaque", key)
    return t


class _P:
    def __init__(self, s):
        self.s = s
        self.i = 0

    def ws(self):
        while self.i < len(self.s) and self.s[self.i] == " ":
            self.i += 1

    def peek(self, lit):
        self.ws()
        return self.s.startswith(lit, self.i)

    def eat(self, lit):
        if self.peek(lit):
            self.i += len(lit)
            return True
        return False

    def alt_list(self):
        alts = [self.one()]
        while self.peek("| ") or self.peek("|"):
            self.eat("|")
            alts.append(self.one())
        t = alts[0] if len(alts) == 1 else ("or", tuple(alts))
        if self.eat("if .."):
            t = ("guarded", t)
        return t

    def one(self):
        self.ws()
        s = self.s
        if self.eat("_"):
            return WILD
        if self.eat("[..]"):
            return ("opaque", "[..]")
        if self.peek("("):
            self.eat("(")
            items = []
            while not self.peek(")"):
                items.append(self.alt_list())
                if not self.eat(","):
                    break
            self.eat(")")
            return ("tuple", tuple(items))
        if self.peek('"'):
            j = self.i + 1
            while j < len(s) and s[j] != '"':
                j += 2 if s[j] == "\\" else 1
            v = s[self.i:j + 1]
            self.i = j + 1
            import json
            try:
                return ("lit", json.loads(v))
            except ValueError:
                return ("opaque", v)
        j = self.i
        while j < len(s) and (s[j].isalnum() or s[j] in "_:.=-?<>"):
            j += 1
        name = s[self.i:j]
        self.i = j
        if not name:
            self.i = len(s)
            return ("opaque", s)
        if name in ("true", "false"):
            return ("lit", name == "true")
        if name.lstrip("-").isdigit():
            return ("lit", int(name))
        if ".." in name or name.startswith("?"):
            return ("opaque", name)
        fields = []
        if self.peek("("):
            self.eat("(")
            k = 0
            while not self.peek(")"):
                if self.eat(".."):
                    break
                fields.append((str(k), self.alt_list()))
                k += 1
                if not self.eat(","):
                    break
            self.eat(")")
        elif self.peek("{"):
            self.eat("{")
            while not self.peek("}"):
                self.ws()
                j = self.i
                while j < len(s) and (s[j].isalnum() or s[j] == "_"):
                    j += 1
                fname = s[self.i:j]
                self.i = j
                if not self.eat(":"):
                    self.i = len(s)
                    return ("opaque", s)
                fields.append((fname, self.alt_list()))
                if not self.eat(","):
                    break
            self.eat("}")
        return ("ctor", name, tuple(fields))


def stable_key(x):
    """a sort key that does not depend on the iteration order of sets (two equal frozensets can print their elements in different orders)"""
    if isinstance(x, (frozenset, set)):
        return "{" + ",".join(sorted(stable_key(e) for e in x)) + "}"
    if isinstance(x, tuple):
        return "(" + ",".join(stable_key(e) for e in x) + ")"
    return repr(x)


# ------------------------------------------------------------------ subjects
TRANSPARENT = {"Result::as_ref", "Option::as_ref", "Clone::clone", "Option::as_deref", "Result::as_deref", "Option::as_mut", "Result::as_mut",
               "Borrow::borrow", "AsRef::as_ref", "Deref::deref", "ToOwned::to_owned", "Option::cloned", "Option::copied"}
MAP_OK = {"Result::map": "Result::Ok", "Option::map": "Option::Some"}
MAP_ERR = {"Result::map_err": "Result::Err"}
OTHER_SIDE = {"Result::Ok": "Result::Err", "Result::Err": "Result::Ok", "Option::Some": "Option::None", "Option::None": "Option::Some"}


def _apply(f, arg):
    if isinstance(f, tuple) and f and f[0] == "closure" and len(f[1]) == 1 and "/" not in f[1][0]:
        return sym.subst(f[2], {f[1][0]: arg})
    if isinstance(f, tuple) and f and f[0] == "ctorfn":
        return ("ctor", f[1], (("0", arg),))
    return ("apply", f, (arg,))


def norm(t):
    if not isinstance(t, tuple) or not t:
        return t
    if t[0] == "proj":
        inner, path = norm(t[1]), t[2]
        if isinstance(inner, tuple) and inner and inner[0] == "proj":
            return norm(("proj", inner[1], inner[2] + path))
        if isinstance(inner, tuple) and inner and inner[0] == "call" and len(inner[2]) == 2 and path:
            name, (x, f) = inner[1], inner[2]
            for table, passes in ((MAP_OK, False), (MAP_ERR, False)):
                if name in table:
                    v = table[name]
                    if path[0] == (v, "0"):
                        return norm(sym.proj_reduce(_apply(f, norm(("proj", x, (path[0],)))), path[1:]))
                    if path[0][0] == OTHER_SIDE.get(v):
                        return norm(("proj", x, path))
        r = sym.proj_reduce(inner, path)
        if r != ("proj", inner, path):
            return norm(r)
        if path and path[0][0] != "tuple" and "::" not in str(path[0][0]) and path[0][0] not in ("slice",):
            # a binding of a struct pattern (`let Rule { head, .. } = x`) is the field access `x.head`
            return norm(("proj", ("fieldof", inner, path[0][1]), path[1:])) if path[1:] else ("fieldof", inner, path[0][1])
        return ("proj", inner, path)
    if t[0] == "place" and len(t) == 2 and isinstance(t[1], str):
        parts = t[1].split(".")
        cur = ("param", parts[0])
        for f in parts[1:]:
            cur = ("fieldof", cur, f)
        return cur
    if t[0] == "fieldof" and len(t) == 3 and isinstance(t[2], str) and t[2].isdigit() and isinstance(t[1], tuple) and t[1][:1] == ("list",) and int(t[2]) < len(t[1][1]):
        return norm(t[1][1][int(t[2])])      # `pair.0` of a literal pair
    if t[0] == "call" and t[1] in TRANSPARENT and len(t[2]) == 1:
        return norm(t[2][0])
    if t[0] in ("ref", "deref", "borrow") and len(t) == 2:
        return norm(t[1])
    return tuple(norm(x) if isinstance(x, tuple) else x for x in t)


def is_test(subject, variant):
    """the fact `subject is variant`, pushed through map / map_err"""
    s = norm(subject)
    if isinstance(s, tuple) and s and s[0] == "call" and len(s[2]) == 2 and (s[1] in MAP_OK or s[1] in MAP_ERR):
        fam = MAP_OK.get(s[1]) or MAP_ERR.get(s[1])
        if variant in (fam, OTHER_SIDE.get(fam)):
            return is_test(s[2][0], variant)
    return ("is", s, variant)


def pat_tests(subject, pt):
    """atomic facts under which the value `subject` matches pattern tree pt; False when it cannot match"""
    s = norm(subject)
    k = pt[0]
    if k == "wild":
        return []
    if k == "guarded":
        r = pat_tests(s, pt[1])
        return False if r is False else r + [("guard",)]
    if k == "or":
        rs = [pat_tests(s, q) for q in pt[1]]
        rs = [r for r in rs if r is not False]
        if not rs:
            return False
        if any(r == [] for r in rs):
            return []
        if len(rs) == 1:
            return rs[0]
        return [("or", tuple(tuple(r) for r in rs))]
    if k == "lit":
        if isinstance(s, tuple) and s and s[0] == "lit" and len(s) == 2:
            return [] if s[1] == pt[1] and type(s[1]) is type(pt[1]) else False
        if isinstance(pt[1], bool):
            return [("cond", s, pt[1])]       # `match b { true => .. }` tests the boolean itself
        return [("eq", s, pt[1])]
    if k == "tuple":
        out = []
        for i, q in enumerate(pt[1]):
            r = pat_tests(("proj", s, (("tuple", str(i)),)), q)
            if r is False:
                return False
            out += r
        return out
    if k == "ctor":
        name, fields = pt[1], pt[2]
        out = []
        if isinstance(s, tuple) and s and s[0] == "ctor":
            if s[1] != name:
                return False if s[1].split("::")[0] == name.split("::")[0] else [("cond", ("matches", s, (name,)), True)]
        else:
            out.append(is_test(s, name))
        for fname, q in fields:
            r = pat_tests(("proj", s, ((name, fname),)), q)
            if r is False:
                return False
            out += r
        return out
    return [("cond", ("matches-opaque", s, pt), True)]


def negate(ts):
    """the fact that the conjunction ts does not hold (a single opaque condition just flips its polarity)"""
    ts = tuple(ts)
    if len(ts) == 1 and ts[0][0] == "cond":
        return ("cond", ts[0][1], not ts[0][2])
    if len(ts) == 1 and ts[0][0] == "not" and len(ts[0][1]) == 1:
        return ts[0][1][0]
    return ("not", ts)


def cond_tests(c, pol):
    """facts that hold when condition term c evaluates to pol"""
    if isinstance(c, tuple) and c:
        dv = sym.decide_bool(c)
        if dv is not None:
            return [] if dv == pol else False
        if c[0] == "lit" and isinstance(c[1], bool):
            return [] if c[1] == pol else False
        if c[0] == "survived":
            r = cond_tests(c[1], pol)
            return r if r is False else [("survived", t) for t in r]   # an earlier exit of the function was not taken
        if c[0] == "op" and c[1] == "Not":
            return cond_tests(c[2], not pol)
        if c[0] == "matches":
            alts = [pat_tests(c[1], parse_pat(p)) for p in c[2]]
            alts = [a for a in alts if a is not False]
            if pol:
                if not alts:
                    return False
                if any(a == [] for a in alts):
                    return []
                return alts[0] if len(alts) == 1 else [("or", tuple(tuple(a) for a in alts))]
            if any(a == [] for a in alts):
                return False
            return [("not", tuple(a)) for a in alts]
        if c[0] == "iflet":
            r = pat_tests(c[2], parse_pat(c[1]))
            if pol:
                return r
            if r == []:
                return False
            return [] if r is False else [("not", tuple(r))]
        if c[0] == "arm":
            r = pat_tests(c[1], parse_pat(c[2]))
            if pol:
                return r
            if r is False:
                return []          # the arm cannot match: that it did not says nothing
            if r == []:
                return False       # the arm always matches: "it did not" never holds
            return [("not", tuple(r))]
        if c[0] == "bin" and c[1] in ("Eq", "Ne"):
            a, b = c[2], c[3]
            if isinstance(a, tuple) and a[:1] == ("lit",) and not (isinstance(b, tuple) and b[:1] == ("lit",)):
                a, b = b, a
            if isinstance(b, tuple) and b[:1] == ("lit",) and len(b) == 2:
                r = pat_tests(a, ("lit", b[1]))
                if (c[1] == "Eq") == pol:
                    return r
                if r == []:
                    return False
                return [] if r is False else [("not", tuple(r))]
        if c[0] == "bin" and c[1] in ("Eq", "Ne"):
            # `x == Enum::Variant` for a variant without payload is `matches!(x, Enum::Variant)`
            a, b = c[2], c[3]
            if isinstance(a, tuple) and a[:1] == ("ctor",) and not a[2] and not (isinstance(b, tuple) and b[:1] == ("ctor",)):
                a, b = b, a
            if isinstance(b, tuple) and b[:1] == ("ctor",) and len(b) == 3 and not b[2] and "::" in str(b[1]) and not (isinstance(a, tuple) and a[:1] == ("ctor",)):
                r = pat_tests(a, ("ctor", b[1], ()))
                if (c[1] == "Eq") == pol:
                    return r
                if r == []:
                    return False
                return [] if r is False else [negate(r)]
        if c[0] == "bin" and c[1] in ("Eq", "Ne"):
            # comparison of two opaque values: one spelling (== with ordered operands)
            a, b = sorted((norm(strip_acc(c[2])), norm(strip_acc(c[3]))), key=stable_key)
            return [("cond", ("bin", "Eq", a, b), pol if c[1] == "Eq" else not pol)]
        if c[0] == "bin" and c[1] in ("And", "BitAnd") and pol:
            a, b = cond_tests(c[2], True), cond_tests(c[3], True)
            return False if a is False or b is False else a + b
        if c[0] == "bin" and c[1] in ("Or", "BitOr") and not pol:
            a, b = cond_tests(c[2], False), cond_tests(c[3], False)
            return False if a is False or b is False else a + b
        if c[0] == "bin" and c[1] in ("And", "BitAnd", "Or", "BitOr"):
            # not (a and b) / (a or b): decided when one side is decided
            conj = c[1] in ("And", "BitAnd")
            da, db = sym.decide_bool(c[2]), sym.decide_bool(c[3])
            for dx, other in ((da, c[3]), (db, c[2])):
                if dx is not None:
                    if dx == conj:          # neutral element: the other side decides
                        return cond_tests(other, pol)
                    return [] if pol != conj else False   # absorbing element
    return [("cond", norm(c), pol)]


# ------------------------------------------------------------------ leaves
SELF_CONTAINED = False    # when set, the facts of a match arm also say that the arms written before it did not match (each leaf stands alone)


class self_contained:
    def __enter__(self):
        global SELF_CONTAINED
        self.old = SELF_CONTAINED
        SELF_CONTAINED = True

    def __exit__(self, *a):
        global SELF_CONTAINED
        SELF_CONTAINED = self.old


def leaves(t, tests=(), limit=4096):
    """[(tests, value)] for the boolean / flag valued term t"""
    out = []
    _leaves(t, list(tests), out, limit)
    res = []
    for ts, v in out:
        seen, clean, dead = set(), [], False
        for x in ts:
            if x in seen:
                continue
            seen.add(x)
            clean.append(x)
        for x in clean:
            if x[0] == "cond" and ("cond", x[1], not x[2]) in seen:
                dead = True
            if x[0] == "is" and any(y[0] == "is" and y[1] == x[1] and y[2] != x[2] for y in clean):
                dead = True
            if x[0] == "not" and len(x[1]) == 1 and x[1][0] in seen:
                dead = True
        if not dead:
            res.append((tuple(clean), v))
    return res


def _leaves(t, tests, out, limit):
    if len(out) > limit:
        raise OverflowError("too many paths")
    if not isinstance(t, tuple) or not t:
        out.append((tuple(tests), t))
        return
    k = t[0]
    if k == "phi" or (k == "match" and len(t) == 3):
        key, arms = (t[1], t[2]) if k == "phi" else (("match", t[1]), t[2])
        if key[0] == "match":
            sc = key[1]
            earlier = []   # guarded arms that were passed over: a later arm is reached only when (pattern and guard) failed
            for arm in arms:
                pk, v = arm[0], arm[-1]
                r = pat_tests(sc, parse_pat(pk))
                if r is False:
                    continue
                if len(arm) == 3 and isinstance(arm[1], tuple) and arm[1][:1] == ("guard",):
                    g = cond_tests(arm[1][1], True)
                    if g is False:
                        continue
                    _leaves(v, tests + earlier + r + g, out, limit)
                    if r + g:
                        earlier = earlier + [negate(r + g)]
                    else:
                        return   # an irrefutable arm whose guard always holds: nothing below is reached
                    continue
                _leaves(v, tests + earlier + r, out, limit)
                if not r:
                    return
                if SELF_CONTAINED:
                    earlier = earlier + [negate(r)]     # a later arm is reached only when this pattern failed
            return
        if key[0] == "if":
            c = key[1]
            if _is_decision(c):
                # the condition is itself a decision (a helper returning bool through early returns, a match): follow its outcomes
                for ts2, pv in bool_leaves(c, tests):
                    if isinstance(pv, tuple) and pv[:1] == ("lit",) and isinstance(pv[1], bool):
                        for lab, v in arms:
                            if (lab == "then") == pv[1]:
                                _leaves(v, list(ts2), out, limit)
                return
            for lab, v in arms:
                r = cond_tests(c, lab == "then")
                if r is False:
                    continue
                _leaves(v, tests + r, out, limit)
            return
    if k == "if" and len(t) == 4 and _is_decision(t[1]):
        for ts2, pv in bool_leaves(t[1], tests):
            if isinstance(pv, tuple) and pv[:1] == ("lit",) and isinstance(pv[1], bool):
                _leaves(t[2] if pv[1] else t[3], list(ts2), out, limit)
        return
    if k == "if" and len(t) == 4:
        for pol, v in ((True, t[2]), (False, t[3])):
            r = cond_tests(t[1], pol)
            if r is False:
                continue
            _leaves(v, tests + r, out, limit)
        return
    if k in ("matches", "iflet"):
        for pol in (True, False):
            r = cond_tests(t, pol)
            if r is False:
                continue
            out.append((tuple(tests + r), ("lit", pol)))
        return
    if k == "op" and t[1] == "Not":
        sub = []
        _leaves(t[2], tests, sub, limit)
        for ts, v in sub:
            out.append((ts, ("lit", not v[1]) if isinstance(v, tuple) and v[:1] == ("lit",) and isinstance(v[1], bool) else ("op", "Not", v)))
        return
    if k == "bin" and t[1] in ("And", "BitAnd", "Or", "BitOr", "BitAndAssign", "BitOrAssign"):
        conj = t[1] in ("And", "BitAnd", "BitAndAssign")
        left = []
        _leaves(t[2], tests, left, limit)
        for ts, a in left:
            if isinstance(a, tuple) and a[:1] == ("lit",) and isinstance(a[1], bool) and t[1] in ("And", "Or") and a[1] != conj:
                out.append((ts, a))   # short circuit
                continue
            right = []
            _leaves(t[3], list(ts), right, limit)
            for ts2, b in right:
                out.append((ts2, _bool_op(conj, a, b)))
        return
    if k == "returns":
        earlier = []   # an exit further down is reached only when the earlier ones were not taken
        for conds, v in t[1]:
            if conds == ("fallthrough",):
                _leaves(v, tests + earlier, out, limit)
                continue
            own = []
            dead = False
            for c, pol in conds:
                r = cond_tests(c, pol)
                if r is False:
                    dead = True
                    break
                own += r
            if not dead:
                _leaves(v, tests + earlier + own, out, limit)
                if not own:
                    return   # an unconditional exit
                earlier = earlier + [negate(own)]
        return
    if k == "never":
        return
    if k == "acc" and len(t) == 2:
        return _leaves(t[1], tests, out, limit)
    out.append((tuple(tests), t))


def _is_decision(c):
    """a condition term that is a decision tree of its own (possibly under a negation)"""
    while isinstance(c, tuple) and c[:2] == ("op", "Not") and len(c) == 3:
        c = c[2]
    return isinstance(c, tuple) and c and (c[0] == "returns" or (c[0] == "match" and len(c) == 3 and isinstance(c[2], tuple)) or (c[0] == "if" and len(c) == 4) or c[0] == "phi")


def _bool_op(conj, a, b):
    def lit(x):
        return x[1] if isinstance(x, tuple) and x[:1] == ("lit",) and len(x) == 2 and isinstance(x[1], bool) else None
    la, lb = lit(a), lit(b)
    if conj:
        if la is False or lb is False:
            return ("lit", False)
        if la is True:
            return b
        if lb is True:
            return a
        return ("bin", "And", a, b)
    if la is True or lb is True:
        return ("lit", True)
    if la is False:
        return b
    if lb is False:
        return a
    return ("bin", "Or", a, b)


# ------------------------------------------------------------------ loop nests
def replace(t, mapping):
    """replace whole sub-terms of t (keys of mapping) by their images"""
    if not isinstance(t, tuple):
        return t
    if t in mapping:
        return mapping[t]
    return tuple(replace(x, mapping) for x in t)


def strip_acc(t):
    """drop the ('acc', T) markers (value at a loop head) everywhere"""
    if not isinstance(t, tuple):
        return t
    if len(t) == 2 and t[0] == "acc":
        return strip_acc(t[1])
    return tuple(strip_acc(x) for x in t)


def _app(f, arg):
    if isinstance(f, tuple) and f and f[0] == "fn":
        from .flow import short
        return ("call", short(f[1]), (arg,))
    return _apply(f, arg)


PASS_THROUGH = {"Iterator::inspect", "Iterator::peekable", "Iterator::by_ref", "Iterator::fuse"}


def _iter(it):
    """(nest, element): the loops that enumerate iterator term `it`, outermost first, and the element it yields"""
    if isinstance(it, tuple) and it and it[0] == "call":
        if it[1] == "Iterator::map" and len(it[2]) == 2:
            n, e = _iter(it[2][0])
            return n, _app(it[2][1], e)
        if it[1] == "Iterator::flat_map" and len(it[2]) == 2:
            n, e = _iter(it[2][0])
            n2, e2 = _iter(_app(it[2][1], e))
            return n + n2, e2
        if it[1] in PASS_THROUGH and it[2]:
            return _iter(it[2][0])
        if it[1] == "Iterator::filter" and len(it[2]) == 2 and _FILTERS is not None:
            n, e = _iter(it[2][0])
            _FILTERS.append((_apply(it[2][1], e), True))
            return n, e
        if it[1] == "Iterator::filter_map" and len(it[2]) == 2 and _FILTERS is not None:
            # the elements for which f answers Some(y), as y
            n, e = _iter(it[2][0])
            fy = _app(it[2][1], e)
            _FILTERS.append((("call", "Option::is_some", (fy,)), True))
            return n, ("proj", fy, (("Option::Some", "0"),))
        if it[1] == "Iterator::enumerate" and len(it[2]) == 1:
            n, e = _iter(it[2][0])
            return n, ("list", (("idx", it[2][0]), e))
        if it[1].endswith(("Map::keys", "Map::into_keys", "Map::values", "Map::into_values")) and len(it[2]) == 1:
            # the keys / values of a map are the first / second components of its entries
            n, e = _iter(it[2][0])
            return n, sym.proj_reduce(e, (("tuple", "0" if "keys" in it[1] else "1"),))
    return [it], ("each", it)


_FILTERS = None


def loop_nest_filtered(loops):
    """like loop_nest, with `filter(p)` adaptors turned into conditions on the element: (nest, mapping, [(condition term, True), ...])"""
    global _FILTERS
    _FILTERS = []
    try:
        nest, mapping = loop_nest(loops)
        return nest, mapping, list(_FILTERS)
    finally:
        _FILTERS = None


def loop_nest(loops):
    """canonical form of a stack of loops (sym.Eval.loops): `for x in L.map(f).flat_map(g)` and `for a in L { for x in g(f(a)) }` are the
    same nest.  Returns (nest, mapping) where mapping sends each raw ('each', iterable) term to the canonical element term."""
    nest, mapping = [], {}
    for raw in loops:
        it = replace(raw, mapping)
        n, e = _iter(it)
        nest += n
        mapping[("each", raw)] = e
    return nest, mapping


def over_all(loops, root, t):
    """when the loop stack `loops` is exactly one pass over every element of `root` (through order- and cardinality-preserving adaptors:
    map, enumerate, inspect, ...): the term t with the loop element expressed over ('each', root); else None"""
    nest, mapping = loop_nest(loops)
    if [norm(n) for n in nest] != [norm(root)]:
        return None
    return norm(replace(t, mapping))


def bool_leaves(t, tests=()):
    """leaves of a boolean-valued term, with an opaque boolean at the end of a path split into its two outcomes"""
    out = []
    for ts, x in leaves(t, tests):
        if isinstance(x, tuple) and x[:1] == ("lit",) and isinstance(x[1], bool):
            out.append((ts, x))
            continue
        for pol in (True, False):
            r = cond_tests(x, pol)
            if r is not False:
                out.append((tuple(ts) + tuple(r), ("lit", pol)))
    return out


def canon_exists(t):
    """`some element of L satisfies P` in one spelling: ('exists', L, P over ('at', L), polarity) - from `L.iter().any(|x| P)` and from the
    flag loop `let mut f = false; for x in L { if P { f = true; break } }` tested afterwards"""
    if t[0] == "cond" and isinstance(t[1], tuple) and t[1][:2] == ("call", "Iterator::any") and len(t[1][2]) == 2:
        L, f = t[1][2]
        if isinstance(f, tuple) and f[:1] == ("closure",) and len(f[1]) == 1:
            return ("exists", norm(L), norm(sym.subst(f[2], {f[1][0]: ("at", norm(L))})), t[2])
    if t[0] in ("eq", "cond") and isinstance(t[1], tuple) and t[1][:1] == ("phi",) and t[1][1][:1] == ("if",) and isinstance(t[2], bool):
        arms = dict(t[1][2])
        if arms.get("then") == ("lit", True) and strip_acc(arms.get("else")) == ("lit", False):
            B = t[1][1][1]
            eachs = {x for x in sym.subterms(B) if isinstance(x, tuple) and len(x) == 2 and x[0] == "each"}
            if len(eachs) == 1:
                e = eachs.pop()
                return ("exists", norm(e[1]), norm(replace(B, {e: ("at", norm(e[1]))})), t[2])
    return t


def lift(t, budget=200):
    """conditionals hoisted out of constructors, tuples, projections and call arguments, so that `Some(if c {a} else {b})`,
    `(if c {(x, y)} else {(u, v)}).0` and `if c {Some(a)} else {Some(b)}` have the same decision tree"""
    COND = ("if", "match", "phi")

    def is_cond(x):
        return isinstance(x, tuple) and x and ((x[0] == "if" and len(x) == 4) or (x[0] == "match" and len(x) == 3 and isinstance(x[2], tuple)) or (x[0] == "phi" and len(x) == 3)
                                               or (x[0] == "returns" and len(x) == 2 and isinstance(x[1], tuple)))

    def rebuild(c, f):
        if c[0] == "returns":
            # the value of a helper with early returns, used as an operand: each exit's value in the operand's place
            return ("returns", tuple((cd, f(v)) for cd, v in c[1]))
        if c[0] == "if":
            return ("if", c[1], f(c[2]), f(c[3]))
        if c[0] == "match":
            return ("match", c[1], tuple(a[:-1] + (f(a[-1]),) for a in c[2]))
        return ("phi", c[1], tuple((lab, f(v)) for lab, v in c[2]))

    def go(x):
        nonlocal budget
        if not isinstance(x, tuple) or not x or budget <= 0:
            return x
        if is_cond(x):
            return rebuild(x, go)
        if x[0] == "returns" and len(x) == 2:
            return ("returns", tuple((c, go(v)) for c, v in x[1]))
        if x[0] == "closure":
            return x
        if x[0] == "proj" and len(x) == 3:
            inner = go(x[1])
            if is_cond(inner):
                budget -= 1
                return go(rebuild(inner, lambda v: sym.proj_reduce(v, x[2]) if not (isinstance(v, tuple) and v[:1] == ("never",)) else v))
            return sym.proj_reduce(inner, x[2])
        if x[0] in ("ctor", "list", "call", "try", "upd"):
            y = tuple(go(i) if isinstance(i, tuple) else i for i in x)
            # find a conditional directly among the operands
            def find(node, path):
                if is_cond(node):
                    return path
                if isinstance(node, tuple) and node and node[0] not in ("closure",) and len(path) < 12:
                    for k, sub in enumerate(node):
                        if isinstance(sub, tuple):
                            r = find(sub, path + (k,))
                            if r is not None:
                                return r
                return None
            p = find(y, ())
            if p:
                budget -= 1

                def put(node, path, v):
                    if not path:
                        return v
                    return tuple(put(s_, path[1:], v) if k == path[0] else s_ for k, s_ in enumerate(node))

                def get(node, path):
                    for k in path:
                        node = node[k]
                    return node
                c = get(y, p)
                return go(rebuild(c, lambda v: v if (isinstance(v, tuple) and v[:1] == ("never",)) else put(y, p, v)))
            return y
        return tuple(go(i) if isinstance(i, tuple) else i for i in x)
    return go(t)


def canon_union(v):
    """`the union over the elements x of L of F(x)` in one spelling: (L, F over ('at', L)) - from `for x in L { result.extend(F(x)) }`,
    `L.iter().flat_map(F).collect()` and `L.iter().map(F).flatten().collect()`; None for anything else"""
    v = strip_acc(v) if isinstance(v, tuple) and v[:1] == ("acc",) else v
    if isinstance(v, tuple) and v[:1] == ("upd",) and v[2] in ("extend", "append") and len(v[3]) == 1 and isinstance(v[1], tuple) and v[1][:1] == ("acc",) \
            and isinstance(v[1][1], tuple) and v[1][1][:1] == ("call",) and v[1][1][1].endswith(("::new", "::default")) and not v[1][1][2]:
        T = v[3][0]
        eachs = {x for x in sym.subterms(T) if isinstance(x, tuple) and len(x) == 2 and x[0] == "each"}
        if len(eachs) == 1:
            e = eachs.pop()
            L = norm(e[1])
            return L, norm(replace(T, {e: ("at", L)}))
        return None
    if isinstance(v, tuple) and v[:2] == ("call", "Iterator::flat_map") and len(v[2]) == 2:
        L = norm(v[2][0])
        return L, norm(_app(v[2][1], ("at", L)))
    if isinstance(v, tuple) and v[:2] == ("call", "Iterator::flatten") and len(v[2]) == 1 and isinstance(v[2][0], tuple) and v[2][0][:2] == ("call", "Iterator::map"):
        L = norm(v[2][0][2][0])
        return L, norm(_app(v[2][0][2][1], ("at", L)))
    return None


def set_norm(t):
    """sound identities of set / collection calls, so that one meaning has one spelling: `a.difference(b).next().is_some()` is `!a.is_subset(b)`,
    `append` fills a collection like `extend`"""
    if not isinstance(t, tuple):
        return t
    t = tuple(set_norm(x) for x in t)
    if t[:2] == ("call", "Option::is_some") and len(t[2]) == 1:
        n = t[2][0]
        if isinstance(n, tuple) and n[:2] == ("call", "Iterator::next") and len(n[2]) == 1 and isinstance(n[2][0], tuple) and n[2][0][:1] == ("call",) \
                and n[2][0][1].endswith("::difference") and len(n[2][0][2]) == 2:
            return ("op", "Not", ("call", "IndexSet::is_subset", n[2][0][2]))
    if t[:2] == ("call", "Option::is_none") and len(t[2]) == 1:
        inner = set_norm(("call", "Option::is_some", t[2]))
        if inner[:2] == ("op", "Not"):
            return inner[2]
    if t[:2] in (("call", "Iterator::any"), ("call", "Iterator::all")) and len(t[2]) == 2 and isinstance(t[2][1], tuple) and t[2][1][:1] == ("closure",) and len(t[2][1][1]) == 1:
        # `a.iter().any(|x| !b.contains(x))` is `!a.is_subset(b)`; `a.iter().all(|x| b.contains(x))` is `a.is_subset(b)`
        a_, clo = t[2]
        body, neg = clo[2], False
        if isinstance(body, tuple) and body[:2] == ("op", "Not"):
            body, neg = body[2], True
        if isinstance(body, tuple) and body[:1] == ("call",) and str(body[1]).endswith("::contains") and len(body[2]) == 2 and body[2][1] == ("param", clo[1][0]) \
                and not any(x == ("param", clo[1][0]) for x in sym.subterms(body[2][0])):
            if t[1] == "Iterator::any" and neg:
                return ("op", "Not", ("call", "IndexSet::is_subset", (a_, body[2][0])))
            if t[1] == "Iterator::all" and not neg:
                return ("call", "IndexSet::is_subset", (a_, body[2][0]))
    if t[:2] == ("op", "Not") and isinstance(t[2], tuple) and t[2][:1] == ("call",) and str(t[2][1]).endswith(("Set::insert",)) and len(t[2][2]) == 2:
        # `!set.insert(x)` holds exactly when x was in the set already (and leaves it there)
        return ("call", "IndexSet::contains", t[2][2])
    if t[:1] == ("upd",) and len(t) == 4 and t[2] == "append":
        return ("upd", t[1], "extend", t[3])
    if t[:1] == ("call",) and t[1].endswith("::is_subset") and t[1] != "IndexSet::is_subset":
        return ("call", "IndexSet::is_subset", t[2])
    return t


def canon_first(v):
    """`the first element x of L with T(x) makes the function return A(x), otherwise it returns B` in one form, from
    `for x in L { if T(x) { return A(x) } } B` and from `match L.iter().filter(..).map(..).find(|x| T(x)) { Some(x) => A(x), None => B }`.
    Result: ('first', nest, frozenset(facts over ('at', ..)), A, B) or None when v has neither shape."""
    v = set_norm(v)

    def finish(nest, tests, A, B, elem_map):
        A = norm(strip_acc(replace(A, elem_map)))
        tests2 = set()
        for t in tests:
            tests2.add(norm(strip_acc(replace(t, elem_map))))
        ats = {}
        for n in nest:
            ats[("each", n)] = ("at", norm(n))
            ats[("each", norm(n))] = ("at", norm(n))
        nn = []
        for n in nest:
            if norm(n) not in nn:
                nn.append(norm(n))
        return ("first", tuple(nn), frozenset(replace(t, ats) for t in tests2), replace(A, ats), norm(strip_acc(B)))
    if isinstance(v, tuple) and v[:1] == ("returns",) and len(v[1]) == 2 and v[1][1][0] == ("fallthrough",):
        conds, A = v[1][0]
        B = v[1][1][1]
        tests = []
        for c, pol in conds:
            r = cond_tests(c, pol)
            if r is False:
                return None
            tests += r
        eachs = sorted({x for t in list(tests) + [A] for x in sym.subterms(t) if isinstance(x, tuple) and len(x) == 2 and x[0] == "each"}, key=repr)
        # innermost iterables only (an `each` inside another iterable belongs to the outer loop)
        nest = [e[1] for e in eachs]
        nest2, mapping, flt = loop_nest_filtered(nest)
        for c, pol in flt:
            tests += cond_tests(c, pol) or []
        return finish(nest2, tests, A, B, mapping)
    if isinstance(v, tuple) and v[:2] == ("call", "Iterator::any") and len(v[2]) == 2:
        # `it.any(f)` is `match it.find(f) { Some(_) => true, None => false }`
        v = ("match", ("call", "Iterator::find", v[2]), (("Option::Some(_)", ("lit", True)), ("Option::None", ("lit", False))))
    if isinstance(v, tuple) and v[:1] == ("match",) and len(v) == 3 and isinstance(v[1], tuple) and v[1][:2] == ("call", "Iterator::find") and len(v[1][2]) == 2:
        it, f = v[1][2]
        arms = {parse_pat(a[0])[1] if parse_pat(a[0])[0] == "ctor" else a[0]: a[-1] for a in v[2] if len(a) == 2}
        if set(arms) != {"Option::Some", "Option::None"}:
            return None
        nest, mapping, flt = loop_nest_filtered([it])
        elem = mapping[("each", it)]
        tests = []
        for c, pol in flt + [(_apply(f, elem), True)]:
            r = cond_tests(norm(c), pol)
            if r is False:
                return None
            tests += r
        found = ("proj", v[1], (("Option::Some", "0"),))
        return finish(nest, tests, arms["Option::Some"], arms["Option::None"], {found: elem})
    return None


def lift_proj(t):
    """projections pushed into the arms of a conditional: `(match t { P => (a, b), _ => panic }).0` = `match t { P => a, _ => panic }` (nothing is
    hoisted out of constructors)"""
    if not isinstance(t, tuple) or not t:
        return t
    t = tuple(lift_proj(x) if isinstance(x, tuple) else x for x in t)
    if t[0] == "proj" and len(t) == 3 and isinstance(t[1], tuple) and t[1]:
        c = t[1]
        keep = lambda v: v if (isinstance(v, tuple) and v[:1] in (("never",), ("panic",))) else lift_proj(sym.proj_reduce(v, t[2]))
        if c[0] == "match" and len(c) == 3 and isinstance(c[2], tuple):
            return ("match", c[1], tuple(a[:-1] + (keep(a[-1]),) for a in c[2]))
        if c[0] == "if" and len(c) == 4:
            return ("if", c[1], keep(c[2]), keep(c[3]))
    return t


# ------------------------------------------------------------------ decision tables
def _bool_atoms(x, out):
    """the atomic conditions of boolean term x (its and / or / not structure opened up)"""
    x = norm(strip_acc(x))
    if isinstance(x, tuple) and x:
        if x[0] == "bin" and x[1] in ("And", "BitAnd", "Or", "BitOr") and len(x) == 4:
            _bool_atoms(x[2], out)
            _bool_atoms(x[3], out)
            return
        if x[0] == "op" and x[1] == "Not" and len(x) == 3:
            _bool_atoms(x[2], out)
            return
        if x[0] == "lit" and isinstance(x[1], bool):
            return
    r = _as_facts(x)
    if r is not None:
        for t in r:
            test_atoms(t, out)
        return
    if ("b", x) not in out:
        out.append(("b", x))


def _as_facts(x):
    """an atomic condition that is a statement about a value's variant / content (`x == Enum::A`, `matches!(x, ..)`, `if let`) as facts; None
    when it is an opaque boolean"""
    if not (isinstance(x, tuple) and x and x[0] in ("bin", "matches", "iflet")):
        return None
    r = cond_tests(x, True)
    if r is False or r == [] or (len(r) == 1 and r[0][0] == "cond"):
        return None
    return r


def _bool_value(x, asg):
    x = norm(strip_acc(x))
    if isinstance(x, tuple) and x:
        if x[0] == "bin" and x[1] in ("And", "BitAnd") and len(x) == 4:
            return _bool_value(x[2], asg) and _bool_value(x[3], asg)
        if x[0] == "bin" and x[1] in ("Or", "BitOr") and len(x) == 4:
            return _bool_value(x[2], asg) or _bool_value(x[3], asg)
        if x[0] == "op" and x[1] == "Not" and len(x) == 3:
            return not _bool_value(x[2], asg)
        if x[0] == "lit" and isinstance(x[1], bool):
            return x[1]
    r = _as_facts(x)
    if r is not None:
        return all(test_holds(t, asg) for t in r)
    return asg[("b", x)]


def test_atoms(t, out):
    """the atoms a fact of a decision tree speaks about"""
    k = t[0]
    if k == "cond":
        _bool_atoms(t[1], out)
    elif k == "survived":
        test_atoms(t[1], out)
    elif k == "not":
        for u in t[1]:
            test_atoms(u, out)
    elif k == "or":
        for alt in t[1]:
            for u in alt:
                test_atoms(u, out)
    else:
        a = ("t", t)
        if a not in out:
            out.append(a)


def test_holds(t, asg):
    k = t[0]
    if k == "cond":
        return _bool_value(t[1], asg) == t[2]
    if k == "survived":
        return test_holds(t[1], asg)
    if k == "not":
        return not all(test_holds(u, asg) for u in t[1])
    if k == "or":
        return any(all(test_holds(u, asg) for u in alt) for alt in t[1])
    return asg[("t", t)]


def decision_table(lv, atoms, value=lambda v: v):
    """the function a list of leaves [(tests, value)] computes, tabulated over every consistent truth assignment of `atoms`:
    {assignment (tuple of bools, in the order of atoms): frozenset of the values of the leaves whose facts hold}"""
    import itertools
    if len(atoms) > 14:
        raise OverflowError("too many atomic conditions: %d" % len(atoms))
    table = {}
    for bits in itertools.product((False, True), repeat=len(atoms)):
        asg = dict(zip(atoms, bits))
        # one value is one variant: `s is V` and `s is W` cannot both hold
        ok = True
        for a, b in asg.items():
            if b and a[0] == "t" and a[1][0] == "is":
                for a2, b2 in asg.items():
                    if b2 and a2 is not a and a2[0] == "t" and a2[1][0] == "is" and a2[1][1] == a[1][1] and a2[1][2] != a[1][2] \
                            and a2[1][2].split("::")[0] == a[1][2].split("::")[0]:
                        ok = False
        if not ok:
            continue
        table[bits] = frozenset(value(v) for ts, v in lv if all(test_holds(t, asg) for t in ts))
    return table


def same_decision(lv1, lv2, value=lambda v: v):
    """do two lists of leaves compute the same function of their conditions?  (True, None) or (False, a distinguishing assignment)"""
    atoms = []
    for lv in (lv1, lv2):
        for ts, _ in lv:
            for t in ts:
                test_atoms(t, atoms)
    atoms.sort(key=stable_key)
    t1, t2 = decision_table(lv1, atoms, value), decision_table(lv2, atoms, value)
    for bits in t1:
        if t1[bits] != t2[bits]:
            return False, {"when": [(a[1], b) for a, b in zip(atoms, bits)], "first": sorted(map(repr, t1[bits]))[:3], "second": sorted(map(repr, t2[bits]))[:3]}
    return True, None


def entails(ts, fact):
    """do the facts ts (a conjunction) entail `fact`?  Decided over every truth assignment of their atoms in which one value has one variant."""
    import itertools
    atoms = []
    for t in list(ts) + [fact]:
        test_atoms(t, atoms)
    # a Result is Ok or Err, an Option Some or None: the other variant of a two-variant std enum is an atom too, and one of the two holds
    CLOSED = {"Result": ("Result::Ok", "Result::Err"), "Option": ("Option::Some", "Option::None")}
    subjects = {}
    for a in list(atoms):
        if a[0] == "t" and a[1][0] == "is" and a[1][2].split("::")[0] in CLOSED:
            fam = CLOSED[a[1][2].split("::")[0]]
            subjects[a[1][1]] = fam
            for v_ in fam:
                if ("t", ("is", a[1][1], v_)) not in atoms:
                    atoms.append(("t", ("is", a[1][1], v_)))
    if len(atoms) > 16:
        raise OverflowError("too many atomic conditions: %d" % len(atoms))
    for bits in itertools.product((False, True), repeat=len(atoms)):
        asg = dict(zip(atoms, bits))
        ok = all(any(asg[("t", ("is", s_, v_))] for v_ in fam) for s_, fam in subjects.items())
        for a, b in asg.items():
            if b and a[0] == "t" and a[1][0] == "is":
                for a2, b2 in asg.items():
                    if b2 and a2 is not a and a2[0] == "t" and a2[1][0] == "is" and a2[1][1] == a[1][1] and a2[1][2] != a[1][2] \
                            and a2[1][2].split("::")[0] == a[1][2].split("::")[0]:
                        ok = False
        if not ok:
            continue
        if all(test_holds(t, asg) for t in ts) and not test_holds(fact, asg):
            return False
    return True
