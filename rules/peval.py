"""Partial evaluation of `match` over concrete abstract values (finite enumeration of node kinds).

Values:  ('adt', 'Enum', 'Variant', {field: value})   struct variants use field names, tuple variants '0','1',..
         ('int', n) | ('str', s) | ('bool', b) | ('any',)
"""
from .facts import AnalysisGap, strip
from . import hq


def A(enum, variant, **fields):
    return ("adt", enum, variant, fields)


ANY = ("any",)


UNKNOWN = object()
_WIDTH = {"isize": 64, "i64": 64, "i32": 32, "i16": 16, "i8": 8, "i128": 128}


def _bound(p, which):
    """Range end: a literal, absent (None: open), a std MIN / MAX constant, or UNKNOWN."""
    if which not in p:
        return None
    b = p[which]
    if isinstance(b, int) and not isinstance(b, bool):
        return b
    if isinstance(b, dict):
        import re
        m = re.search(r"(?:<impl )?(isize|i8|i16|i32|i64|i128)>?::(MAX|MIN)$", str(b.get("path") or b.get("def") or b.get("name") or ""))
        if m:
            w = _WIDTH[m.group(1)]
            return 2 ** (w - 1) - 1 if m.group(2) == "MAX" else -2 ** (w - 1)
    return UNKNOWN


def pat_matches(p, v, binds=None):
    """True / False / None (cannot tell).  Bindings (HirId -> value) are recorded in `binds` when given."""
    k = p.get("p")
    if k == "Wild":
        return True
    if k == "Bind":
        if binds is not None:
            binds[p["id"]] = v
        return pat_matches(p["sub"], v, binds) if "sub" in p else True
    if k in ("Ref", "Box", "Deref"):
        return pat_matches(p["pat"], v, binds)
    if k == "Or":
        rs = [pat_matches(q, v, binds) for q in p["pats"]]
        if any(r is True for r in rs):
            return True
        if all(r is False for r in rs):
            return False
        return None
    if v == ANY:
        return None
    if k == "Lit":
        if v[0] in ("int", "str", "bool"):
            pv = p.get("v")
            if p.get("neg"):
                pv = -pv
            return pv == v[1]
        return None
    if k == "Range":
        if v[0] != "int":
            return None
        lo, hi = _bound(p, "lo"), _bound(p, "hi")
        if lo is UNKNOWN or hi is UNKNOWN:
            return None
        if lo is not None and v[1] < lo:
            return False
        if hi is not None and (v[1] > hi or (v[1] == hi and p.get("end") != "Included")):
            return False
        return True
    if k in ("Path", "TupleStruct", "Struct"):
        r = p.get("res", {})
        if r.get("r") != "ctor" or v[0] != "adt":
            return None
        if hq.last(r["adt"]) != v[1]:
            return None
        if r.get("variant") is not None and r.get("variant") != v[2]:
            return False
        res = True
        if k == "TupleStruct":
            for i, q in enumerate(p["pats"]):
                sub = v[3].get(str(i), ANY)
                m = pat_matches(q, sub, binds)
                if m is False:
                    return False
                if m is None:
                    res = None
        elif k == "Struct":
            for f in p["fields"]:
                sub = v[3].get(f["name"], ANY)
                m = pat_matches(f["pat"], sub, binds)
                if m is False:
                    return False
                if m is None:
                    res = None
        return res
    if k == "Tuple":
        if v[0] != "tuple":
            return None
        res = True
        for q, sub in zip(p["pats"], v[1]):
            m = pat_matches(q, sub, binds)
            if m is False:
                return False
            if m is None:
                res = None
        return res
    return None


def eval_expr(e, binds, self_val=None):
    """Tiny evaluator for arm bodies / guards over abstract values: literals, comparisons, !, &&, ||, `.len()`, `.is_empty()`,
    field access, pattern-bound locals.  Raises AnalysisGap when outside this fragment."""
    e = strip(e)
    k = e.get("k")
    if k == "Block" and not e.get("stmts") and "expr" in e:
        return eval_expr(e["expr"], binds, self_val)
    if k == "Lit":
        v = e.get("v")
        return ("bool", v) if isinstance(v, bool) else (("int", v) if isinstance(v, int) else ("str", v))
    if k == "Path" and e.get("res", {}).get("r") == "local":
        if e["res"]["id"] in binds:
            return binds[e["res"]["id"]]
        raise AnalysisGap("unbound local %s in table expression" % e["res"]["name"])
    if k == "Field":
        b = eval_expr(e["e"], binds, self_val)
        if b[0] == "adt" and e["name"] in b[3]:
            return b[3][e["name"]]
        raise AnalysisGap("field %s of %r" % (e["name"], b))
    if k == "MethodCall" and e["method"] in ("len", "is_empty") and not e["args"]:
        b = eval_expr(e["recv"], binds, self_val)
        if b[0] == "list":
            return ("int", b[1]) if e["method"] == "len" else ("bool", b[1] == 0)
        raise AnalysisGap("len of %r" % (b,))
    if k == "Unary" and e.get("op") == "Not":
        return ("bool", not eval_expr(e["e"], binds, self_val)[1])
    if k == "Binary":
        op = e["op"]
        l = eval_expr(e["l"], binds, self_val)
        if op == "And":
            return ("bool", bool(l[1]) and bool(eval_expr(e["r"], binds, self_val)[1]))
        if op == "Or":
            return ("bool", bool(l[1]) or bool(eval_expr(e["r"], binds, self_val)[1]))
        r = eval_expr(e["r"], binds, self_val)
        f = {"Gt": lambda a, b: a > b, "Lt": lambda a, b: a < b, "Ge": lambda a, b: a >= b, "Le": lambda a, b: a <= b,
             "Eq": lambda a, b: a == b, "Ne": lambda a, b: a != b}.get(op)
        if f is None:
            raise AnalysisGap("operator %s in table expression" % op)
        return ("bool", f(l[1], r[1]))
    if k == "Match" and e.get("mac") == "matches":
        sv = eval_expr(e["scrut"], binds, self_val)
        r = pat_matches(e["arms"][0]["pat"], sv)
        if r is None:
            raise AnalysisGap("matches! undecidable on %r" % (sv,))
        return ("bool", r)
    raise AnalysisGap("expression kind %s in table" % k)


def select_arm(m, v, binds=None):
    """The arm of Match node m taken for value v (first arm that definitely matches, provided all earlier arms definitely do not)."""
    for a in m["arms"]:
        b = {}
        r = pat_matches(a["pat"], v, b)
        if r is True:
            if "guard" in a:
                g = eval_expr(a["guard"], b)
                if not g[1]:
                    continue
            if binds is not None:
                binds.update(b)
            return a
        if r is False:
            continue
        raise AnalysisGap("cannot decide arm %s for value %r" % (hq.pat_key(a["pat"]), v))
    raise AnalysisGap("no arm matches %r" % (v,))


def eval_table_fn(body, v):
    """Evaluate a method of the form `match self.0 { .. => const }` (or a constant body) on value v.
    Returns the constant (hq.const_of) of the selected arm."""
    e = strip(body["body"])
    while e.get("k") == "Block" and not e.get("stmts") and "expr" in e:
        e = strip(e["expr"])
    if e.get("k") == "Match" and e.get("mac") == "matches":
        r = pat_matches(e["arms"][0]["pat"], v)
        if r is None:
            raise AnalysisGap("matches! undecidable in %s" % body["def_path"])
        return ("lit", r)
    if e.get("k") == "Match":
        b = {}
        a = select_arm(e, v, b)
        ab = a["body"]
        if strip(ab).get("ty") == "!" or ab.get("ty") == "!":
            return ("panic",)
        c = hq.const_of(ab)
        if c is None:
            val = eval_expr(ab, b)
            return ("lit", val[1])
        return c
    c = hq.const_of(e)
    if c is None:
        raise AnalysisGap("%s is not a table" % body["def_path"])
    return c
