"""Precedence model of a printer: the extracted tables (precedence / associativity / mandatory_parentheses) evaluated on
abstract node kinds, and the parenthesisation decisions of the generic fmt_unary / fmt_binary evaluated on table rows."""
from .facts import AnalysisGap
from . import peval, printers, sym

A = peval.A


class Model:
    def __init__(self, fx, which, ty):
        self.fx = fx
        self.which = which
        self.ty = ty
        self.prec = printers.display_impl(fx, which, ty, trait="formatting::Precedence", name="precedence")
        self.assoc = printers.display_impl(fx, which, ty, trait="formatting::Precedence", name="associativity")
        try:
            self.mand = printers.display_impl(fx, which, ty, trait="formatting::Precedence", name="mandatory_parentheses")
        except AnalysisGap:
            self.mand = None  # trait default: false
        self.conds = generic_conditions(fx)

    def row(self, v):
        p = peval.eval_table_fn(self.prec, v)
        try:
            a = peval.eval_table_fn(self.assoc, v)
        except AnalysisGap:
            raise
        m = peval.eval_table_fn(self.mand, v) if self.mand is not None else ("lit", False)
        return {"prec": p[1] if p[0] == "lit" else None, "assoc": a[2] if a[0] == "variant" else ("panic" if a == ("panic",) else None),
                "mand": m[1] if m[0] == "lit" else None}

    def parens(self, parent, child, pos):
        """Does the printer parenthesise `child` at position pos ('inner' | 'lhs' | 'rhs') under `parent`?"""
        cond = self.conds[pos]
        return eval_cond(cond, {"self": self.row(parent), pos: self.row(child)})


def generic_conditions(fx):
    """The conditions under which fmt_unary / fmt_binary write `({x})` rather than `{x}`."""
    out = {}
    for fn, names in (("Precedence::fmt_unary", ("inner",)), ("Precedence::fmt_binary", ("lhs", "rhs"))):
        b = fx.fn(fn)
        ev = sym.Eval(fx, inline_depth=0)
        ev.function(b)
        import re as _re
        for n in names:
            # writes of this operand, with and without parentheses: identified by the argument, not by the name used inside the template
            # (the write may sit in an extracted helper, whose parameters are substituted by inlining)
            def is_operand(o):
                return o[2][0] == "write" and len(o[2][2]) == 1 and o[2][2][0] == ("param", n)
            hit = [o for o in ev.out if is_operand(o) and _re.fullmatch(r"\(\{\w*\}\)", o[2][1])]
            neg = [o for o in ev.out if is_operand(o) and _re.fullmatch(r"\{\w*\}", o[2][1])]
            conds = set()
            ok = bool(hit) and len(hit) == len(neg)
            for h in hit:
                if not h[0] or h[0][-1][1] is not True:
                    ok = False
                    break
                c = h[0][-1][0]
                prefix = h[0][:-1]
                if not any(g[0] == prefix + ((c, False),) for g in neg):
                    ok = False
                    break
                conds.add(c)
            if not ok or len(conds) != 1:
                raise AnalysisGap("%s: parenthesisation condition for `%s` not of the form if C {({x})} else {x}" % (fn, n))
            out[n] = conds.pop()
    return out


def eval_cond(c, env):
    k = c[0]
    if k == "bin":
        op = c[1]
        if op == "Or":
            return eval_cond(c[2], env) or eval_cond(c[3], env)
        if op == "And":
            return eval_cond(c[2], env) and eval_cond(c[3], env)
        l, r = eval_cond(c[2], env), eval_cond(c[3], env)
        if l is None or r is None:
            raise AnalysisGap("table value missing for %r" % (c,))
        if l == "panic" or r == "panic":
            raise AnalysisGap("associativity() would panic for this operand: %r" % (c,))
        return {"Lt": l < r, "Gt": l > r, "Eq": l == r, "Ne": l != r, "Le": l <= r, "Ge": l >= r}[op]
    if k == "call":
        who = c[2][0][1]
        if c[1] == "Precedence::precedence":
            return env[who]["prec"]
        if c[1] == "Precedence::mandatory_parentheses":
            return env[who]["mand"]
        if c[1] == "Precedence::associativity":
            return env[who]["assoc"]
    if k == "ctor" and c[1].startswith("Associativity::"):
        return c[1].split("::")[1]
    if k == "op" and c[1] == "Not":
        return not eval_cond(c[2], env)
    raise AnalysisGap("condition term outside the fragment: %r" % (c,))


# ---------------------------------------------------------------------------------------
# abstract node kinds


def formula_kinds(fx, multi_guard=True):
    F = "Formula"
    kinds = {
        "truth": A(F, "AtomicFormula", **{"0": A("AtomicFormula", "Truth")}),
        "falsity": A(F, "AtomicFormula", **{"0": A("AtomicFormula", "Falsity")}),
        "atom": A(F, "AtomicFormula", **{"0": A("AtomicFormula", "Atom", **{"0": A("Atom", None, terms=("list", 1))})}),
        "comparison1": A(F, "AtomicFormula", **{"0": A("AtomicFormula", "Comparison", **{"0": A("Comparison", None, guards=("list", 1))})}),
        "comparison2": A(F, "AtomicFormula", **{"0": A("AtomicFormula", "Comparison", **{"0": A("Comparison", None, guards=("list", 2))})}),
        "not": A(F, "UnaryFormula", connective=A("UnaryConnective", "Negation")),
        "forall": A(F, "QuantifiedFormula", quantification=A("Quantification", None, quantifier=A("Quantifier", "Forall"))),
        "exists": A(F, "QuantifiedFormula", quantification=A("Quantification", None, quantifier=A("Quantifier", "Exists"))),
    }
    for c in fx.variants("syntax_tree::fol::sigma_0::BinaryConnective"):
        kinds["bin:" + c] = A(F, "BinaryFormula", connective=A("BinaryConnective", c))
    return kinds
