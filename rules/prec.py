"""Precedence model of a printer: the extracted tables (precedence / associativity / mandatory_parentheses) evaluated on
abstract node kinds, and the parenthesisation decisions of the generic fmt_unary / fmt_binary evaluated on table rows."""
from .facts import AnalysisGap
from . import peval, printers, sym

A = peval.A


class Model:
    def __init__(self, fx, which, ty):
        self.fx = fx
        self.which = which
        self.ty = ty
        self.prec = printers.display_impl(fx, which, ty, trait="formatting::Precedence", name="precedence")
        self.assoc = printers.display_impl(fx, which, ty, trait="formatting::Precedence", name="associativity")
        try:
            self.mand = printers.display_impl(fx, which, ty, trait="formatting::Precedence", name="mandatory_parentheses")
        except AnalysisGap:
            self.mand = None  # trait default: false
        self.conds = generic_conditions(fx)

    def table(self, body, v):
        """value of a table method (precedence / associativity / mandatory_parentheses) on the abstract node v: by symbolic evaluation on the
        concrete constructor tree (match arms, guards, helper functions are all decided there), with the pattern evaluator as fallback"""
        try:
            t = sym.Eval(self.fx, inline_depth=0).function(body, [("ctor", "Format", (("0", to_term(v)),))])
            if t[0] == "lit" and isinstance(t[1], (int, bool)):
                return ("lit", t[1])
            if t[0] == "ctor" and not t[2] and "::" in t[1]:
                return ("variant", t[1].split("::")[0], t[1].split("::")[1])
            if t[0] == "panic":
                return ("panic",)
        except (AnalysisGap, KeyError, IndexError, TypeError):
            pass
        return peval.eval_table_fn(body, v)

    def row(self, v):
        p = self.table(self.prec, v)
        a = self.table(self.assoc, v)
        m = self.table(self.mand, v) if self.mand is not None else ("lit", False)
        return {"prec": p[1] if p[0] == "lit" else None, "assoc": a[2] if a[0] == "variant" else ("panic" if a == ("panic",) else None),
                "mand": m[1] if m[0] == "lit" else None}

    def parens(self, parent, child, pos):
        """Does the printer parenthesise `child` at position pos ('inner' | 'lhs' | 'rhs') under `parent`?  The write of the operand whose
        whole path condition holds for this (parent, child) row decides."""
        env = {"self": self.row(parent), pos: self.row(child)}
        taken = []
        for conds, par in self.conds[pos]:
            ok = True
            for c, pol in conds:
                v = eval_path_cond(c, env)
                if v is None:
                    raise AnalysisGap("path condition outside the fragment: %r" % (c,))
                if bool(v) != bool(pol):
                    ok = False
                    break
            if ok:
                taken.append(par)
        if len(set(taken)) != 1:
            raise AnalysisGap("the operand `%s` is written %d times (or with both shapes) for one (parent, child) row" % (pos, len(taken)))
        return taken[0]


_OPAQUE = [0]


def to_term(v):
    """abstract node value (peval) -> constructor term for the symbolic evaluator; unspecified fields are opaque parameters"""
    if v[0] == "adt":
        name = "%s::%s" % (v[1], v[2]) if v[2] else v[1]
        return ("ctor", name, tuple(sorted((k, to_term(x)) for k, x in v[3].items())))
    if v[0] in ("int", "str", "bool"):
        return ("lit", v[1])
    if v[0] == "list":
        return ("list", tuple(("param", "$item%d" % i) for i in range(v[1])))
    _OPAQUE[0] += 1
    return ("param", "$any%d" % _OPAQUE[0])


def generic_conditions(fx):
    """For each operand of fmt_unary / fmt_binary: the writes of that operand as (path condition, in parentheses?)."""
    import re as _re
    out = {}
    for fn, names in (("Precedence::fmt_unary", ("inner",)), ("Precedence::fmt_binary", ("lhs", "rhs"))):
        b = fx.fn(fn)
        ev = sym.Eval(fx, inline_depth=0)
        ev.function(b)
        for n in names:
            # writes of this operand, identified by the argument, not by the name used inside the template (the write may sit in an extracted
            # helper, whose parameters are substituted by inlining)
            def is_operand(o):
                return o[2][0] == "write" and len(o[2][2]) == 1 and o[2][2][0] == ("param", n)
            rows = []
            for o in ev.out:
                if not is_operand(o):
                    continue
                if _re.fullmatch(r"\(\{\w*\}\)", o[2][1]):
                    rows.append((o[0], True))
                elif _re.fullmatch(r"\{\w*\}", o[2][1]):
                    rows.append((o[0], False))
                else:
                    raise AnalysisGap("%s writes `%s` with the template %r" % (fn, n, o[2][1]))
            if not rows or not any(p_ for _, p_ in rows) or not any(not p_ for _, p_ in rows):
                raise AnalysisGap("%s: no parenthesised / bare write of `%s` found" % (fn, n))
            out[n] = rows
    return out


def eval_path_cond(c, env):
    """value of one path-condition entry: a boolean term, or ('arm', scrutinee, pattern key) of a match"""
    if c[0] == "survived":
        return eval_path_cond(c[1], env)
    if c[0] == "arm":
        sc, key = c[1], c[2]
        if sc[0] == "call" and sc[1].endswith("::cmp") and len(sc[2]) == 2:
            a, b_ = eval_cond(sc[2][0], env), eval_cond(sc[2][1], env)
            if a is None or b_ is None:
                return None
            o = "Less" if a < b_ else ("Greater" if a > b_ else "Equal")
            alts = [k.split("::")[-1] for k in key.split(" | ")]
            return o in alts or "_" in alts
        v = eval_cond(sc, env)
        if isinstance(v, bool):
            return (key == "true") == v if key in ("true", "false") else None
        if isinstance(v, str):
            alts = [k.split("::")[-1] for k in key.split(" | ")]
            return v in alts or "_" in alts
        return None
    try:
        return eval_cond(c, env)
    except AnalysisGap:
        raise


def eval_cond(c, env):
    k = c[0]
    if k == "bin":
        op = c[1]
        if op == "Or":
            return eval_cond(c[2], env) or eval_cond(c[3], env)
        if op == "And":
            return eval_cond(c[2], env) and eval_cond(c[3], env)
        l, r = eval_cond(c[2], env), eval_cond(c[3], env)
        if l is None or r is None:
            raise AnalysisGap("table value missing for %r" % (c,))
        if l == "panic" or r == "panic":
            raise AnalysisGap("associativity() would panic for this operand: %r" % (c,))
        return {"Lt": l < r, "Gt": l > r, "Eq": l == r, "Ne": l != r, "Le": l <= r, "Ge": l >= r}[op]
    if k == "call":
        who = c[2][0][1]
        if c[1] == "Precedence::precedence":
            return env[who]["prec"]
        if c[1] == "Precedence::mandatory_parentheses":
            return env[who]["mand"]
        if c[1] == "Precedence::associativity":
            return env[who]["assoc"]
    if k == "ctor" and c[1].startswith("Associativity::"):
        return c[1].split("::")[1]
    if k == "ctor" and not c[2]:
        return c[1].split("::")[-1]          # a constant of a later-introduced enum (which operand: `Position::Lhs`): matched by name
    if k == "returns":
        # early `return v` under conditions, then the fall-through value
        for conds, val in c[1]:
            if conds == ("fallthrough",):
                return eval_cond(val, env)
            if all(eval_path_cond(c_[0], env) is c_[1] for c_ in conds if len(c_) >= 2):
                return eval_cond(val, env)
        raise AnalysisGap("no exit of %r is taken" % (c,))
    if k == "op" and c[1] == "Not":
        return not eval_cond(c[2], env)
    if k == "lit":
        return c[1]
    if k == "if":
        return eval_cond(c[2], env) if eval_cond(c[1], env) else eval_cond(c[3], env)
    if k == "match":
        sc = c[1]
        if sc[0] == "call" and sc[1].endswith("::cmp") and len(sc[2]) == 2:
            a, b_ = eval_cond(sc[2][0], env), eval_cond(sc[2][1], env)
            if a is None or b_ is None:
                raise AnalysisGap("table value missing for %r" % (sc,))
            v = "Less" if a < b_ else ("Greater" if a > b_ else "Equal")
        else:
            v = eval_cond(sc, env)
            if isinstance(v, bool):
                v = "true" if v else "false"
        for arm in c[2]:
            if len(arm) != 2:
                raise AnalysisGap("guarded arm in a parenthesisation condition")
            alts = [k_.split("::")[-1] for k_ in arm[0].split(" | ")]
            if v in alts or "_" in alts:
                return eval_cond(arm[1], env)
        raise AnalysisGap("no arm for %r" % (v,))
    raise AnalysisGap("condition term outside the fragment: %r" % (c,))


# ---------------------------------------------------------------------------------------
# abstract node kinds


def formula_kinds(fx, multi_guard=True):
    F = "Formula"
    kinds = {
        "truth": A(F, "AtomicFormula", **{"0": A("AtomicFormula", "Truth")}),
        "falsity": A(F, "AtomicFormula", **{"0": A("AtomicFormula", "Falsity")}),
        "atom": A(F, "AtomicFormula", **{"0": A("AtomicFormula", "Atom", **{"0": A("Atom", None, terms=("list", 1))})}),
        "comparison1": A(F, "AtomicFormula", **{"0": A("AtomicFormula", "Comparison", **{"0": A("Comparison", None, guards=("list", 1))})}),
        "comparison2": A(F, "AtomicFormula", **{"0": A("AtomicFormula", "Comparison", **{"0": A("Comparison", None, guards=("list", 2))})}),
        "not": A(F, "UnaryFormula", connective=A("UnaryConnective", "Negation")),
        "forall": A(F, "QuantifiedFormula", quantification=A("Quantification", None, quantifier=A("Quantifier", "Forall"))),
        "exists": A(F, "QuantifiedFormula", quantification=A("Quantification", None, quantifier=A("Quantifier", "Exists"))),
    }
    for c in fx.variants("syntax_tree::fol::sigma_0::BinaryConnective"):
        kinds["bin:" + c] = A(F, "BinaryFormula", connective=A("BinaryConnective", c))
    return kinds


def rule_dispatch(ctx, which, ty, cases, group="PRN-D"):
    """Every operator node of the printed type goes through the generic parenthesising printer, with its own operands, in order, on every
    path: Display::fmt of Format<ty> is evaluated on each operator constructor (operands opaque) and must produce exactly one unconditional
    call fmt_unary(self, Format(arg)) / fmt_binary(self, Format(lhs), Format(rhs)) and no other output.  A special case that writes an
    operand directly bypasses the precedence comparison that the parser's binding powers were checked against.
    cases: [(variant, operator field, operator enum def-path | None, operand fields, 'fmt_unary' | 'fmt_binary')]"""
    fx = ctx.facts
    db = printers.display_impl(fx, which, ty)
    site = ctx.site(db)
    n = 0
    for variant, opfield, openum, operands, fn in cases:
        ops = fx.variants(openum) if openum else [None]
        if not ops:
            raise AnalysisGap("no variants for %s" % openum)
        for opv in ops:
            fields = [(f, ("param", "$" + f)) for f in operands]
            if openum:
                fields.append((opfield, ("ctor", "%s::%s" % (openum.split("::")[-1], opv), ())))
            node = ("ctor", "%s::%s" % (ty, variant), tuple(sorted(fields)))
            me = ("ctor", "Format", (("0", node),))
            ev = sym.Eval(fx, inline_depth=0)
            ev.function(db, [me, ("param", "f")])
            want = [((), (), ("emit", "Precedence::" + fn, (me,) + tuple(("ctor", "Format", (("0", ("param", "$" + f)),)) for f in operands)))]
            got = [(c, l, e) for c, l, e in ev.out]
            n += 1
            ctx.add(group, "dispatch:%s:%s%s" % (ty, variant, ":" + opv if opv else ""), got == want, site,
                    "Display for Format<%s> prints %s%s with exactly one unconditional %s(self, %s): %s" % (
                        ty, variant, "{%s}" % opv if opv else "", fn, ", ".join(operands), [sym.pretty(e)[:140] for _, _, e in got][:3]))
    return n
