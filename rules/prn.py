"""PRN: printer <-> grammar <-> parser agreement for the two native syntaxes (token round trips, precedence soundness against the
Pratt tables, juxtaposition hazards, list / separator templates)."""
import re

from .facts import AnalysisGap, strip, walk
from . import gcov, grammar, hq, peval, prec, printers, sym

A = peval.A


def parser_table(fx, which, parser):
    """translate_pair of a token parser: {rule name: variant}"""
    mod = "parsing::%s::pest::%s" % ("asp::mini_gringo" if which == "asp" else "fol::sigma_0", parser)
    bs = [b for b in fx.body_list if b["name"] == "translate_pair" and b.get("impl", {}).get("self_ty") == mod]
    if len(bs) != 1:
        raise AnalysisGap("parser %s not found" % mod)
    out = {}
    for m in hq.nodes(bs[0]["body"], "Match"):
        for a in m["arms"]:
            for alt in hq.or_alternatives(a["pat"]):
                k = hq.pat_key(alt)
                if k.startswith("Rule::"):
                    c = hq.const_of(a["body"])
                    if c and c[0] == "variant":
                        out[k[6:]] = "%s::%s" % (c[1], c[2])
    return out, bs[0]


def token_roundtrip(ctx, rule_id, fx, g, which, enum, printer_ty, parser, choice_rule, follow=" "):
    """PRN-K for one token enum."""
    pb = printers.display_impl(fx, which, printer_ty)
    ptab = printers.token_table(printers.evaluate(fx, pb).value)
    if ptab is None:
        raise AnalysisGap("printer of %s is not a token table" % printer_ty)
    qtab, qb = parser_table(fx, which, parser)
    alts = []

    def expand(name):
        r = g.rule(name)
        for a in g.alternatives(name):
            if a["e"] == "ident" and a["v"] in g.rules and g.rules[a["v"]]["ty"] == "silent":
                expand(a["v"])
            elif a["e"] == "ident":
                alts.append(a["v"])
            else:
                alts.append(None)
    expand(choice_rule)
    lits = {}
    for r in alts:
        if r is None:
            continue
        ls = [x for x in g.literal_of(r) if x is not None]
        lits[r] = ls
    variants = fx.variants(enum)
    for v in variants:
        key = "%s::%s" % (hq.last(enum), v)
        s = ptab.get(key)
        if s is None or "{" in s:
            ctx.gap(rule_id, "%s:%s" % (hq.last(enum), v), ctx.site(pb), "printer arm for %s is not a literal token" % key)
            continue
        if s == "":
            continue
        # PEG ordered choice on the text `s + follow`
        text = s + follow
        first = None
        for r in alts:
            if r is None:
                continue
            if any(text.startswith(l) for l in lits[r]):
                first = r
                break
        matched_exact = first is not None and s in lits[first]
        back = qtab.get(first)
        ctx.add(rule_id, "%s:%s" % (hq.last(enum), v), matched_exact and back == key, ctx.site(pb),
                "%s is printed `%s`; the grammar's ordered choice `%s` reads it as rule `%s`; the parser maps that rule to %s" % (key, s, choice_rule, first, back),
                construct={"token": s, "rule": first, "parsed": back})
    # the parser table covers exactly the alternatives
    named = [r for r in alts if r is not None]
    ctx.add(rule_id, "%s:parser-total" % hq.last(enum), set(named) <= set(qtab), ctx.site(qb), "every alternative of `%s` has a parser arm: %s" % (choice_rule, sorted(set(named) - set(qtab)) or "ok"),
            nontrivial=False)
    return ptab, qtab


# ---------------------------------------------------------------------------------------
# precedence: printer tables vs Pratt table


def pratt_levels(pt):
    """rule -> (level index, kind, assoc); higher index binds tighter."""
    out = {}
    for i, lvl in enumerate(pt["levels"]):
        for kind, rule, assoc in lvl:
            out[rule] = (i, kind, assoc)
    return out


def check_precedence(ctx, rule_id, fx, which, ty, pratt_name, kinds, op_rule, leaf_hazard=None):
    """kinds: {name: (abstract value, 'leaf' | 'prefix' | 'infix', grammar rule of the operator or None)}"""
    m = prec.Model(fx, which, ty)
    pts = gcov.pratt_tables(fx, which)
    if pratt_name not in pts:
        raise AnalysisGap("Pratt table %s not found" % pratt_name)
    lv = pratt_levels(pts[pratt_name])
    site = ctx.site(m.prec)
    n = 0
    # the token sequence handed to the Pratt parser: `prefix* operand (infix prefix* operand)*` - any number of prefix operators before every
    # operand (the printers write `a - --b` without parentheses), one infix operator between two operands
    from . import grammar as _grammar
    g = _grammar.load(fx, which)
    tab = pts[pratt_name]
    tab_ops = set(tab["infix"]) | set(tab["prefix"]) | set(tab["postfix"])

    def ops_of(name, seen=()):
        if name in tab_ops:
            return {name}
        try:
            alts = g.alternatives(name)
        except Exception:
            return None
        if name in seen or not all(a["e"] == "ident" for a in alts):
            return None
        out = set()
        for a in alts:
            r = ops_of(a["v"], seen + (name,))
            if r is None:
                return None
            out |= r
        return out

    def flat_seq(e):
        return flat_seq(e["a"]) + flat_seq(e["b"]) if e["e"] == "seq" else [e]
    fed = []
    for rname in g.order if hasattr(g, "order") else []:
        parts = flat_seq(g.rule(rname)["expr"])
        idents = [x["v"] for x in parts if x["e"] == "ident"] + [y["v"] for x in parts if x["e"] in ("rep", "rep1", "opt") for y in flat_seq(x["x"]) if y["e"] == "ident"]
        if "EOI" in idents or ops_of(rname) is not None:
            continue          # `x_eoi = _{ x ~ EOI }`: an entry point for one token class, not an expression
        if any(ops_of(i_) == set(tab["infix"]) for i_ in idents):
            fed.append((rname, parts))
    shape_ok = len(fed) == 1
    if shape_ok:
        rname, parts = fed[0]
        is_pre = lambda x: x["e"] == "rep" and x["x"]["e"] == "ident" and ops_of(x["x"]["v"]) == set(tab["prefix"])
        shape_ok = len(parts) == 3 and is_pre(parts[0]) and parts[1]["e"] == "ident" and parts[2]["e"] == "rep"
        if shape_ok:
            tail = flat_seq(parts[2]["x"])
            shape_ok = len(tail) == 3 and tail[0]["e"] == "ident" and ops_of(tail[0]["v"]) == set(tab["infix"]) and is_pre(tail[1]) and tail[2] == parts[1]
    ctx.add(rule_id, "%s:operand-shape" % pratt_name, shape_ok, "src/parsing/%s/grammar.pest" % ("asp/mini_gringo" if which == "asp" else "fol/sigma_0"),
            "the rule feeding %s is `prefix* operand (infix prefix* operand)*`: every operand may carry any number of prefix operators: %s" % (pratt_name, [r for r, _ in fed]))
    for pk, (pv, pkind, prule) in kinds.items():
        if pkind == "leaf":
            continue
        if prule not in lv:
            ctx.bad(rule_id, "%s:registered" % pk, site, "operator rule `%s` is not registered in %s" % (prule, pratt_name))
            continue
        plevel, pk_kind, passoc = lv[prule]
        positions = ("inner",) if pkind == "prefix" else ("lhs", "rhs")
        for ck, (cv, ckind, crule) in kinds.items():
            for pos in positions:
                n += 1
                try:
                    par = m.parens(pv, cv, pos)
                except AnalysisGap as e:
                    ctx.gap(rule_id, "%s/%s/%s" % (pk, ck, pos), site, str(e))
                    continue
                if ckind == "leaf":
                    need = bool(leaf_hazard and leaf_hazard(pk, ck, pos))
                    why = "leaf operand"
                else:
                    clevel, _, cassoc = lv.get(crule, (None, None, None))
                    if clevel is None:
                        ctx.bad(rule_id, "%s/%s/%s" % (pk, ck, pos), site, "child operator rule %s not registered" % crule)
                        continue
                    if pkind == "prefix":
                        # `op child`: the prefix operator takes the tightest following operand: an infix child needs parentheses iff it binds weaker
                        need = (ckind == "infix" and clevel < plevel)
                    elif ckind == "prefix":
                        # a prefix-operator child: on the right it is always a complete operand; on the left `op a P b` groups (op a) P b iff the prefix binds tighter
                        need = (pos == "lhs" and clevel < plevel)
                    else:
                        if pos == "lhs":
                            need = clevel < plevel or (clevel == plevel and passoc == "Right")
                        else:
                            need = clevel < plevel or (clevel == plevel and passoc == "Left")
                    why = "Pratt: parent level %s (%s), child level %s" % (plevel, passoc, clevel)
                ctx.add(rule_id, "%s/%s/%s" % (pk, ck, pos), par or not need, site,
                        "child %s at %s of %s: printer parenthesises=%s, the parser needs parentheses=%s (%s)" % (ck, pos, pk, par, need, why))
    return n


def first_token_class(text):
    if not text:
        return "empty"
    c = text[0]
    if c.isupper() or (c == "_" and len(text) > 1 and text[1].isupper()):
        return "variable"
    if c.islower() or c == "_":
        return "word"
    if c.isdigit():
        return "digit"
    return c
