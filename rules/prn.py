"""PRN: printer <-> grammar <-> parser agreement for the two native syntaxes (token round trips, precedence soundness against the
Pratt tables, juxtaposition hazards, list / separator templates)."""
import re

from .facts import AnalysisGap, strip, walk
from . import gcov, grammar, hq, peval, prec, printers, sym

A = peval.A


def parser_table(fx, which, parser):
    """translate_pair of a token parser: {rule name: variant}"""
    mod = "parsing::%s::pest::%s" % ("asp::mini_gringo" if which == "asp" else "fol::sigma_0", parser)
    bs = [b for b in fx.body_list if b["name"] == "translate_pair" and b.get("impl", {}).get("self_ty") == mod]
    if len(bs) != 1:
        raise AnalysisGap("parser %s not found" % mod)
    out = {}
    for m in hq.nodes(bs[0]["body"], "Match"):
        for a in m["arms"]:
            for alt in hq.or_alternatives(a["pat"]):
                k = hq.pat_key(alt)
                if k.startswith("Rule::"):
                    c = hq.const_of(a["body"])
                    if c and c[0] == "variant":
                        out[k[6:]] = "%s::%s" % (c[1], c[2])
    return out, bs[0]


def token_roundtrip(ctx, rule_id, fx, g, which, enum, printer_ty, parser, choice_rule, follow=" "):
    """PRN-K for one token enum."""
    pb = printers.display_impl(fx, which, printer_ty)
    ptab = printers.token_table(printers.evaluate(fx, pb).value)
    if ptab is None:
        raise AnalysisGap("printer of %s is not a token table" % printer_ty)
    qtab, qb = parser_table(fx, which, parser)
    alts = []

    def expand(name):
        r = g.rule(name)
        for a in g.alternatives(name):
            if a["e"] == "ident" and a["v"] in g.rules and g.rules[a["v"]]["ty"] == "silent":
                expand(a["v"])
            elif a["e"] == "ident":
                alts.append(a["v"])
            else:
                alts.append(None)
    expand(choice_rule)
    lits = {}
    for r in alts:
        if r is None:
            continue
        ls = [x for x in g.literal_of(r) if x is not None]
        lits[r] = ls
    variants = fx.variants(enum)
    for v in variants:
        key = "%s::%s" % (hq.last(enum), v)
        s = ptab.get(key)
        if s is None or "{" in s:
            ctx.gap(rule_id, "%s:%s" % (hq.last(enum), v), ctx.site(pb), "printer arm for %s is not a literal token" % key)
            continue
        if s == "":
            continue
        # PEG ordered choice on the text `s + follow`
        text = s + follow
        first = None
        for r in alts:
            if r is None:
                continue
            if any(text.startswith(l) for l in lits[r]):
                first = r
                break
        matched_exact = first is not None and s in lits[first]
        back = qtab.get(first)
        ctx.add(rule_id, "%s:%s" % (hq.last(enum), v), matched_exact and back == key, ctx.site(pb),
                "%s is printed `%s`; the grammar's ordered choice `%s` reads it as rule `%s`; the parser maps that rule to %s" % (key, s, choice_rule, first, back),
                construct={"token": s, "rule": first, "parsed": back})
    # the parser table covers exactly the alternatives
    named = [r for r in alts if r is not None]
    ctx.add(rule_id, "%s:parser-total" % hq.last(enum), set(named) <= set(qtab), ctx.site(qb), "every alternative of `%s` has a parser arm: %s" % (choice_rule, sorted(set(named) - set(qtab)) or "ok"),
            nontrivial=False)
    return ptab, qtab


# ---------------------------------------------------------------------------------------
# precedence: printer tables vs Pratt table


def pratt_levels(pt):
    """rule -> (level index, kind, assoc); higher index binds tighter."""
    out = {}
    for i, lvl in enumerate(pt["levels"]):
        for kind, rule, assoc in lvl:
            out[rule] = (i, kind, assoc)
    return out


def check_precedence(ctx, rule_id, fx, which, ty, pratt_name, kinds, op_rule, leaf_hazard=None):
    """kinds: {name: (abstract value, 'leaf' | 'prefix' | 'infix', grammar rule of the operator or None)}"""
    m = prec.Model(fx, which, ty)
    pts = gcov.pratt_tables(fx, which)
    if pratt_name not in pts:
        raise AnalysisGap("Pratt table %s not found" % pratt_name)
    lv = pratt_levels(pts[pratt_name])
    site = ctx.site(m.prec)
    n = 0
    for pk, (pv, pkind, prule) in kinds.items():
        if pkind == "leaf":
            continue
        if prule not in lv:
            ctx.bad(rule_id, "%s:registered" % pk, site, "operator rule `%s` is not registered in %s" % (prule, pratt_name))
            continue
        plevel, pk_kind, passoc = lv[prule]
        positions = ("inner",) if pkind == "prefix" else ("lhs", "rhs")
        for ck, (cv, ckind, crule) in kinds.items():
            for pos in positions:
                n += 1
                try:
                    par = m.parens(pv, cv, pos)
                except AnalysisGap as e:
                    ctx.gap(rule_id, "%s/%s/%s" % (pk, ck, pos), site, str(e))
                    continue
                if ckind == "leaf":
                    need = bool(leaf_hazard and leaf_hazard(pk, ck, pos))
                    why = "leaf operand"
                else:
                    clevel, _, cassoc = lv.get(crule, (None, None, None))
                    if clevel is None:
                        ctx.bad(rule_id, "%s/%s/%s" % (pk, ck, pos), site, "child operator rule %s not registered" % crule)
                        continue
                    if pkind == "prefix":
                        # `op child`: the prefix operator takes the tightest following operand: an infix child needs parentheses iff it binds weaker
                        need = (ckind == "infix" and clevel < plevel)
                    elif ckind == "prefix":
                        # a prefix-operator child: on the right it is always a complete operand; on the left `op a P b` groups (op a) P b iff the prefix binds tighter
                        need = (pos == "lhs" and clevel < plevel)
                    else:
                        if pos == "lhs":
                            need = clevel < plevel or (clevel == plevel and passoc == "Right")
                        else:
                            need = clevel < plevel or (clevel == plevel and passoc == "Left")
                    why = "Pratt: parent level %s (%s), child level %s" % (plevel, passoc, clevel)
                ctx.add(rule_id, "%s/%s/%s" % (pk, ck, pos), par or not need, site,
                        "child %s at %s of %s: printer parenthesises=%s, the parser needs parentheses=%s (%s)" % (ck, pos, pk, par, need, why))
    return n


def first_token_class(text):
    if not text:
        return "empty"
    c = text[0]
    if c.isupper() or (c == "_" and len(text) > 1 and text[1].isupper()):
        return "variable"
    if c.islower() or c == "_":
        return "word"
    if c.isdigit():
        return "digit"
    return c
