"""Checker self-test (thorough tier): seeded mutants of the repository, each a small textual edit that still
compiles, applied to a scratch copy under $TMPDIR.  The check of the targeted property is re-run on the copy
(facts re-extracted from the mutated sources); the expected rule must fire on the mutant, and negative controls
(behaviour-preserving edits) must stay silent.  Mutant output is captured and never forwarded, so no VIOLATION line
about a mutant can be mistaken for one about the repository.  The result is reported in the evidence as
`selftest`; it validates the machinery, it is not evidence about anthem."""
import json
import os
import shutil
import subprocess
import sys
import tempfile

from . import facts as F

CATALOG = os.path.join(F.VERIF, "selftest", "mutants.json")


def load_catalog():
    with open(CATALOG) as fh:
        muts = json.load(fh)["mutants"]
    # the confirmed changes written by sub-agents (seeded/<id>/patch.diff) are mutants too: expected to fire under their own property
    sd = os.path.join(F.VERIF, "seeded")
    if os.path.isdir(sd):
        for d in sorted(os.listdir(sd)):
            mp = os.path.join(sd, d, "meta.json")
            pp = os.path.join(sd, d, "patch.diff")
            if os.path.exists(mp) and os.path.exists(pp):
                with open(mp) as fh:
                    meta = json.load(fh)
                muts.append({"id": "S-" + d, "props": [meta["property"]], "what": meta["change"], "expect": [""], "patch": pp})
    # behaviour-preserving refactorings written by sub-agents (probes/<id>/patch.diff): negative controls; a probe that still fires is a
    # known fail-closed case (DESIGN 0.8) and shows up as FALSE-ALARM in the informational self-test
    pd = os.path.join(F.VERIF, "probes")
    if os.path.isdir(pd):
        for d in sorted(os.listdir(pd)):
            mp = os.path.join(pd, d, "meta.json")
            pp = os.path.join(pd, d, "patch.diff")
            if os.path.exists(mp) and os.path.exists(pp):
                with open(mp) as fh:
                    meta = json.load(fh)
                props = sorted(set(meta.get("props", [meta["anchored_property"]])) | set(meta.get("checks_firing", {})))
                muts.append({"id": "R-" + d, "props": props, "what": "refactoring (no behaviour change): " + meta.get("what", ""), "expect": None, "patch": pp})
    return muts


def make_copy(repo):
    d = tempfile.mkdtemp(prefix="anthem-mut-")
    for item in ("Cargo.toml", "Cargo.lock"):
        shutil.copy2(os.path.join(repo, item), os.path.join(d, item))
    shutil.copytree(os.path.join(repo, "src"), os.path.join(d, "src"))
    return d


def apply_patch(copy, patch):
    p = subprocess.run(["git", "apply", "--unsafe-paths", "--directory=" + copy, patch], cwd=copy, stdout=subprocess.PIPE, stderr=subprocess.STDOUT, text=True)
    if p.returncode != 0:
        p = subprocess.run("patch -p1 -s < %s" % patch, shell=True, cwd=copy, stdout=subprocess.PIPE, stderr=subprocess.STDOUT, text=True)
    return None if p.returncode == 0 else "patch does not apply: " + p.stdout[-300:]


def apply_edits(copy, edits):
    for e in edits:
        p = os.path.join(copy, e["file"])
        with open(p) as fh:
            s = fh.read()
        n = s.count(e["old"])
        if n != 1:
            return "edit anchor occurs %d times in %s" % (n, e["file"])
        s = s.replace(e["old"], e["new"])
        with open(p, "w") as fh:
            fh.write(s)
    return None


def run_mutant(m, prop, base_repo):
    copy = make_copy(base_repo)
    try:
        err = apply_patch(copy, m["patch"]) if "patch" in m else apply_edits(copy, m["edits"])
        if err:
            return {"id": m["id"], "status": "stale", "why": err}
        env = dict(os.environ)
        env["ANTHEM_REPO"] = copy
        env["VERIF_SELFTEST_CHILD"] = "1"
        env["VERIF_OUT_DIR"] = os.path.join(copy, "out")
        p = subprocess.run([sys.executable, os.path.join(F.VERIF, "check"), prop, "--tier", "quick"],
                           env=env, stdout=subprocess.PIPE, stderr=subprocess.STDOUT, text=True, cwd=F.VERIF)
        lines = p.stdout.splitlines()
        fired = [l.strip() for l in lines if l.strip().startswith(("violated ", "ANALYSIS-GAP "))]
        keys = [l.split()[1] for l in fired]
        if "fact extraction" in p.stdout and "failed" in p.stdout:
            return {"id": m["id"], "status": "does-not-compile", "why": p.stdout[-400:]}
        if m.get("expect") is None:
            ok = p.returncode == 0
            return {"id": m["id"], "status": "silent-ok" if ok else "FALSE-ALARM", "fired": keys[:5]}
        hit = [k for k in keys if any(k.startswith(e) for e in m["expect"])]
        return {"id": m["id"], "status": "detected" if hit else "MISSED", "fired": keys[:6], "expected": m["expect"]}
    finally:
        shutil.rmtree(copy, ignore_errors=True)


def run(prop, ctx):
    if os.environ.get("VERIF_SELFTEST_CHILD"):
        return None
    muts = [m for m in load_catalog() if prop in m["props"]]
    results = []
    base = F.repo_dir()
    for m in muts:
        r = run_mutant(m, prop, base)
        results.append(r)
        # informational: the self-test validates the checker, it never decides the property on the tree under test
        ctx.notes.append("selftest %s: %s" % (m["id"], r["status"]))
    return {"n_mutants": len(muts), "n_detected": sum(1 for r in results if r["status"] == "detected"),
            "n_negative_controls_silent": sum(1 for r in results if r["status"] == "silent-ok"), "results": results}
