use crate::json::J;
use rustc_ast::LitKind;
use rustc_hir as hir;
use rustc_hir::def::{CtorOf, DefKind, Res};
use rustc_hir::def_id::{DefId, LocalDefId};
use rustc_hir::{Expr, ExprKind, HirId, Pat, PatKind, QPath, StmtKind};
use rustc_middle::ty::print::{with_no_trimmed_paths, PrintTraitRefExt};
use rustc_middle::ty::{self, Instance, TyCtxt, TypeckResults, TypingEnv};
use rustc_span::hygiene::{ExpnKind, MacroKind};
use rustc_span::Span;

pub fn path_str(tcx: TyCtxt<'_>, def_id: DefId) -> String {
    with_no_trimmed_paths!(tcx.def_path_str(def_id))
}

pub fn ty_str<'tcx>(ty: ty::Ty<'tcx>) -> String {
    with_no_trimmed_paths!(ty.to_string())
}

pub struct Cx<'tcx> {
    pub tcx: TyCtxt<'tcx>,
    pub owner: LocalDefId,
    pub typeck: &'tcx TypeckResults<'tcx>,
}

pub fn loc(tcx: TyCtxt<'_>, span: Span) -> (String, i64, i64) {
    let sp = span.source_callsite();
    let sm = tcx.sess.source_map();
    let lo = sm.lookup_char_pos(sp.lo());
    let hi = sm.lookup_char_pos(sp.hi());
    let file = match &lo.file.name {
        rustc_span::FileName::Real(r) => r
            .local_path()
            .map(|p| p.display().to_string())
            .unwrap_or_else(|| format!("{:?}", lo.file.name)),
        other => format!("{:?}", other),
    };
    (file, lo.line as i64, hi.line as i64)
}

/// (outermost bang-macro name, callsite snippet, desugaring kind)
fn expansion_info(tcx: TyCtxt<'_>, span: Span) -> (Option<String>, Option<String>, Option<String>, Option<String>) {
    if !span.from_expansion() {
        return (None, None, None, None);
    }
    let mut mac = None;
    let mut inner_mac = None;
    let mut site = None;
    let mut desugar = None;
    for data in span.macro_backtrace() {
        match data.kind {
            ExpnKind::Macro(MacroKind::Bang, name) => {
                if inner_mac.is_none() {
                    inner_mac = Some(name.to_string());
                }
                mac = Some(name.to_string());
                site = Some(data.call_site);
            }
            ExpnKind::Macro(_, name) => {
                // derive / attribute macro
                mac = Some(format!("#{}", name));
                site = Some(data.call_site);
            }
            ExpnKind::Desugaring(k) => {
                if desugar.is_none() {
                    desugar = Some(format!("{:?}", k));
                }
            }
            _ => {}
        }
    }
    let snippet = site.and_then(|s| tcx.sess.source_map().span_to_snippet(s).ok());
    (mac, snippet, desugar, inner_mac)
}

impl<'tcx> Cx<'tcx> {
    fn res(&self, res: Res) -> J {
        let tcx = self.tcx;
        let mut o = J::obj();
        match res {
            Res::Local(hid) => {
                o.push(("r", J::s("local")));
                o.push(("name", J::s(tcx.hir_name(hid).as_str())));
                o.push(("id", J::Num(hid.local_id.as_u32() as i64)));
            }
            Res::Def(DefKind::Ctor(of, _), did) => {
                o.push(("r", J::s("ctor")));
                match of {
                    CtorOf::Variant => {
                        let variant = tcx.parent(did);
                        let adt = tcx.parent(variant);
                        o.push(("adt", J::s(path_str(tcx, adt))));
                        o.push(("variant", J::s(tcx.item_name(variant).as_str())));
                    }
                    CtorOf::Struct => {
                        let adt = tcx.parent(did);
                        o.push(("adt", J::s(path_str(tcx, adt))));
                        o.push(("variant", J::Null));
                    }
                }
            }
            Res::Def(DefKind::Variant, did) => {
                o.push(("r", J::s("ctor")));
                let adt = tcx.parent(did);
                o.push(("adt", J::s(path_str(tcx, adt))));
                o.push(("variant", J::s(tcx.item_name(did).as_str())));
            }
            Res::Def(DefKind::Struct, did) | Res::Def(DefKind::Union, did) | Res::Def(DefKind::Enum, did) => {
                o.push(("r", J::s("ctor")));
                o.push(("adt", J::s(path_str(tcx, did))));
                o.push(("variant", J::Null));
            }
            Res::Def(kind, did) => {
                o.push(("r", J::s("def")));
                o.push(("kind", J::s(format!("{:?}", kind))));
                o.push(("path", J::s(path_str(tcx, did))));
            }
            Res::SelfCtor(did) | Res::SelfTyAlias { alias_to: did, .. } => {
                // `Self(..)` / `Self { .. }` inside an impl
                let ty = tcx.type_of(did).instantiate_identity().skip_normalization();
                o.push(("r", J::s("ctor")));
                match ty.kind() {
                    ty::Adt(adt, _) => o.push(("adt", J::s(path_str(tcx, adt.did())))),
                    _ => o.push(("adt", J::s(ty_str(ty)))),
                }
                o.push(("variant", J::Null));
            }
            other => {
                o.push(("r", J::s("other")));
                o.push(("dbg", J::s(format!("{:?}", other))));
            }
        }
        J::Obj(o)
    }

    fn qpath(&self, qp: &QPath<'tcx>, hid: HirId) -> J {
        self.res(self.typeck.qpath_res(qp, hid))
    }

    /// Resolve a (possibly trait) function reference with the generic arguments recorded
    /// for node `hid` to the concrete function it will call, when that is knowable.
    fn resolve_callee(&self, def_id: DefId, hid: HirId) -> (String, Option<String>) {
        let tcx = self.tcx;
        let generic = path_str(tcx, def_id);
        let args = self.typeck.node_args(hid);
        let env = TypingEnv::post_analysis(tcx, self.owner.to_def_id());
        if args.len() != tcx.generics_of(def_id).count() {
            return (generic, None);
        }
        let resolved = match std::panic::catch_unwind(std::panic::AssertUnwindSafe(|| {
            Instance::try_resolve(tcx, env, def_id, args)
        })) {
            Ok(Ok(Some(inst))) => Some(path_str(tcx, inst.def_id())),
            _ => None,
        };
        (generic, resolved)
    }

    fn span_fields(&self, o: &mut Vec<(&'static str, J)>, span: Span, parent_mac_site: &mut Option<Span>) {
        let (_f, l, _h) = loc(self.tcx, span);
        o.push(("line", J::Num(l)));
        if span.from_expansion() {
            let (mac, snippet, desugar, inner) = expansion_info(self.tcx, span);
            if let Some(m) = mac {
                o.push(("mac", J::s(m)));
                let site = span.source_callsite();
                // snippet only on the outermost node of an expansion (parent has another site)
                if *parent_mac_site != Some(site) {
                    if let Some(s) = snippet {
                        o.push(("mac_src", J::s(s)));
                    }
                }
                *parent_mac_site = Some(site);
            }
            if let Some(i) = inner {
                o.push(("mac_inner", J::s(i)));
            }
            if let Some(d) = desugar {
                o.push(("desugar", J::s(d)));
            }
        } else {
            *parent_mac_site = None;
        }
    }

    pub fn expr(&self, e: &'tcx Expr<'tcx>, mac_site: Option<Span>) -> J {
        let mut o = J::obj();
        let mut site = mac_site;
        let kind_name: &str;
        let mut extra = J::obj();
        let sub = |x: &'tcx Expr<'tcx>, site: Option<Span>| self.expr(x, site);
        // compute span fields first so children know the site
        let mut span_o = J::obj();
        self.span_fields(&mut span_o, e.span, &mut site);
        match &e.kind {
            ExprKind::Lit(l) => {
                kind_name = "Lit";
                extra.push(("v", lit(&l.node)));
            }
            ExprKind::Path(qp) => {
                kind_name = "Path";
                let r = self.typeck.qpath_res(qp, e.hir_id);
                extra.push(("res", self.res(r)));
                if let Res::Def(DefKind::Fn | DefKind::AssocFn | DefKind::AssocConst { .. }, did) = r {
                    let (g, c) = self.resolve_callee(did, e.hir_id);
                    extra.push(("callee", J::s(g)));
                    if let Some(c) = c {
                        extra.push(("callee_res", J::s(c)));
                    }
                }
            }
            ExprKind::Call(f, args) => {
                kind_name = "Call";
                extra.push(("f", sub(f, site)));
                extra.push(("args", J::Arr(args.iter().map(|a| sub(a, site)).collect())));
            }
            ExprKind::MethodCall(seg, recv, args, _) => {
                kind_name = "MethodCall";
                extra.push(("method", J::s(seg.ident.as_str())));
                if let Some(did) = self.typeck.type_dependent_def_id(e.hir_id) {
                    let (g, c) = self.resolve_callee(did, e.hir_id);
                    extra.push(("callee", J::s(g)));
                    if let Some(c) = c {
                        extra.push(("callee_res", J::s(c)));
                    }
                }
                extra.push(("recv", sub(recv, site)));
                extra.push(("args", J::Arr(args.iter().map(|a| sub(a, site)).collect())));
            }
            ExprKind::Struct(qp, fields, tail) => {
                kind_name = "Struct";
                extra.push(("res", self.qpath(qp, e.hir_id)));
                let mut fs = Vec::new();
                for f in fields.iter() {
                    let mut fo = J::obj();
                    fo.push(("name", J::s(f.ident.as_str())));
                    fo.push(("e", sub(f.expr, site)));
                    fs.push(J::Obj(fo));
                }
                extra.push(("fields", J::Arr(fs)));
                if let hir::StructTailExpr::Base(b) = tail {
                    extra.push(("base", sub(b, site)));
                }
            }
            ExprKind::Match(scrut, arms, src) => {
                kind_name = "Match";
                extra.push(("src", J::s(format!("{:?}", src))));
                extra.push(("scrut", sub(scrut, site)));
                let mut as_ = Vec::new();
                for a in arms.iter() {
                    let mut ao = J::obj();
                    ao.push(("pat", self.pat(a.pat)));
                    if let Some(g) = a.guard {
                        ao.push(("guard", sub(g, site)));
                    }
                    ao.push(("body", sub(a.body, site)));
                    let (_f, l, _h) = loc(self.tcx, a.span);
                    ao.push(("line", J::Num(l)));
                    as_.push(J::Obj(ao));
                }
                extra.push(("arms", J::Arr(as_)));
            }
            ExprKind::If(c, t, el) => {
                kind_name = "If";
                extra.push(("cond", sub(c, site)));
                extra.push(("then", sub(t, site)));
                if let Some(x) = el {
                    extra.push(("else", sub(x, site)));
                }
            }
            ExprKind::Let(l) => {
                kind_name = "Let";
                extra.push(("pat", self.pat(l.pat)));
                extra.push(("init", sub(l.init, site)));
            }
            ExprKind::Block(b, _) => {
                kind_name = "Block";
                self.block(b, &mut extra, site);
            }
            ExprKind::Loop(b, _, src, _) => {
                kind_name = "Loop";
                extra.push(("src", J::s(format!("{:?}", src))));
                let mut bo = J::obj();
                self.block(b, &mut bo, site);
                extra.push(("body", J::Obj(bo)));
            }
            ExprKind::Closure(c) => {
                kind_name = "Closure";
                let body = self.tcx.hir_body(c.body);
                extra.push(("def", J::s(path_str(self.tcx, c.def_id.to_def_id()))));
                extra.push(("params", J::Arr(body.params.iter().map(|p| self.pat(p.pat)).collect())));
                extra.push(("body", sub(body.value, site)));
            }
            ExprKind::AddrOf(_, m, x) => {
                kind_name = "Ref";
                extra.push(("mut", J::Bool(m.is_mut())));
                extra.push(("e", sub(x, site)));
            }
            ExprKind::Unary(op, x) => {
                kind_name = "Unary";
                extra.push(("op", J::s(format!("{:?}", op))));
                extra.push(("e", sub(x, site)));
            }
            ExprKind::Binary(op, a, b) => {
                kind_name = "Binary";
                extra.push(("op", J::s(format!("{:?}", op.node))));
                extra.push(("l", sub(a, site)));
                extra.push(("r", sub(b, site)));
                if let Some(did) = self.typeck.type_dependent_def_id(e.hir_id) {
                    extra.push(("callee", J::s(path_str(self.tcx, did))));
                }
            }
            ExprKind::Assign(a, b, _) => {
                kind_name = "Assign";
                extra.push(("l", sub(a, site)));
                extra.push(("r", sub(b, site)));
            }
            ExprKind::AssignOp(op, a, b) => {
                kind_name = "AssignOp";
                extra.push(("op", J::s(format!("{:?}", op.node))));
                extra.push(("l", sub(a, site)));
                extra.push(("r", sub(b, site)));
            }
            ExprKind::Field(x, id) => {
                kind_name = "Field";
                extra.push(("name", J::s(id.as_str())));
                extra.push(("e", sub(x, site)));
            }
            ExprKind::Index(a, b, _) => {
                kind_name = "Index";
                extra.push(("e", sub(a, site)));
                extra.push(("idx", sub(b, site)));
                if let Some(did) = self.typeck.type_dependent_def_id(e.hir_id) {
                    extra.push(("callee", J::s(path_str(self.tcx, did))));
                }
            }
            ExprKind::Tup(xs) => {
                kind_name = "Tup";
                extra.push(("es", J::Arr(xs.iter().map(|a| sub(a, site)).collect())));
            }
            ExprKind::Array(xs) => {
                kind_name = "Array";
                extra.push(("es", J::Arr(xs.iter().map(|a| sub(a, site)).collect())));
            }
            ExprKind::Repeat(x, _) => {
                kind_name = "Repeat";
                extra.push(("e", sub(x, site)));
            }
            ExprKind::Cast(x, _) => {
                kind_name = "Cast";
                extra.push(("e", sub(x, site)));
            }
            ExprKind::Type(x, _) => {
                kind_name = "Type";
                extra.push(("e", sub(x, site)));
            }
            ExprKind::DropTemps(x) => {
                kind_name = "DropTemps";
                extra.push(("e", sub(x, site)));
            }
            ExprKind::Use(x, _) => {
                kind_name = "Use";
                extra.push(("e", sub(x, site)));
            }
            ExprKind::Break(_, x) => {
                kind_name = "Break";
                if let Some(x) = x {
                    extra.push(("e", sub(x, site)));
                }
            }
            ExprKind::Continue(_) => {
                kind_name = "Continue";
            }
            ExprKind::Ret(x) => {
                kind_name = "Ret";
                if let Some(x) = x {
                    extra.push(("e", sub(x, site)));
                }
            }
            ExprKind::Become(x) => {
                kind_name = "Become";
                extra.push(("e", sub(x, site)));
            }
            ExprKind::Yield(x, _) => {
                kind_name = "Yield";
                extra.push(("e", sub(x, site)));
            }
            ExprKind::ConstBlock(_) => {
                kind_name = "ConstBlock";
            }
            ExprKind::InlineAsm(_) => {
                kind_name = "InlineAsm";
            }
            ExprKind::OffsetOf(..) => {
                kind_name = "OffsetOf";
            }
            ExprKind::UnsafeBinderCast(_, x, _) => {
                kind_name = "UnsafeBinderCast";
                extra.push(("e", sub(x, site)));
            }
            ExprKind::Err(_) => {
                kind_name = "Err";
            }
        }
        o.push(("k", J::s(kind_name)));
        if let Some(t) = self.typeck.expr_ty_opt(e) {
            o.push(("ty", J::s(ty_str(t))));
        }
        let adj = self.typeck.expr_adjustments(e);
        if !adj.is_empty() {
            if let Some(last) = adj.last() {
                o.push(("ty_adj", J::s(ty_str(last.target))));
            }
        }
        o.extend(span_o);
        o.extend(extra);
        J::Obj(o)
    }

    fn block(&self, b: &'tcx hir::Block<'tcx>, out: &mut Vec<(&'static str, J)>, site: Option<Span>) {
        let mut stmts = Vec::new();
        for s in b.stmts.iter() {
            let mut so = J::obj();
            let (_f, l, _h) = loc(self.tcx, s.span);
            match &s.kind {
                StmtKind::Let(l_) => {
                    so.push(("k", J::s("LetStmt")));
                    so.push(("line", J::Num(l)));
                    so.push(("src", J::s(format!("{:?}", l_.source))));
                    so.push(("pat", self.pat(l_.pat)));
                    if let Some(i) = l_.init {
                        so.push(("init", self.expr(i, site)));
                    }
                    if let Some(els) = l_.els {
                        let mut eo = J::obj();
                        self.block(els, &mut eo, site);
                        so.push(("else", J::Obj(eo)));
                    }
                }
                StmtKind::Item(_) => {
                    so.push(("k", J::s("ItemStmt")));
                    so.push(("line", J::Num(l)));
                }
                StmtKind::Expr(x) => {
                    so.push(("k", J::s("ExprStmt")));
                    so.push(("line", J::Num(l)));
                    so.push(("e", self.expr(x, site)));
                }
                StmtKind::Semi(x) => {
                    so.push(("k", J::s("SemiStmt")));
                    so.push(("line", J::Num(l)));
                    so.push(("e", self.expr(x, site)));
                }
            }
            stmts.push(J::Obj(so));
        }
        out.push(("stmts", J::Arr(stmts)));
        if let Some(x) = b.expr {
            out.push(("expr", self.expr(x, site)));
        }
    }

    pub fn pat(&self, p: &'tcx Pat<'tcx>) -> J {
        let mut o = J::obj();
        match &p.kind {
            PatKind::Wild => o.push(("p", J::s("Wild"))),
            PatKind::Missing => o.push(("p", J::s("Missing"))),
            PatKind::Never => o.push(("p", J::s("Never"))),
            PatKind::Binding(mode, hid, ident, sub) => {
                o.push(("p", J::s("Bind")));
                o.push(("name", J::s(ident.as_str())));
                o.push(("id", J::Num(hid.local_id.as_u32() as i64)));
                o.push(("mode", J::s(format!("{:?}", mode))));
                if let Some(s) = sub {
                    o.push(("sub", self.pat(s)));
                }
            }
            PatKind::Struct(qp, fields, rest) => {
                o.push(("p", J::s("Struct")));
                o.push(("res", self.qpath(qp, p.hir_id)));
                let mut fs = Vec::new();
                for f in fields.iter() {
                    let mut fo = J::obj();
                    fo.push(("name", J::s(f.ident.as_str())));
                    fo.push(("pat", self.pat(f.pat)));
                    fs.push(J::Obj(fo));
                }
                o.push(("fields", J::Arr(fs)));
                o.push(("rest", J::Bool(rest.is_some())));
            }
            PatKind::TupleStruct(qp, pats, ddpos) => {
                o.push(("p", J::s("TupleStruct")));
                o.push(("res", self.qpath(qp, p.hir_id)));
                o.push(("pats", J::Arr(pats.iter().map(|x| self.pat(x)).collect())));
                o.push(("rest", J::Bool(ddpos.as_opt_usize().is_some())));
            }
            PatKind::Or(pats) => {
                o.push(("p", J::s("Or")));
                o.push(("pats", J::Arr(pats.iter().map(|x| self.pat(x)).collect())));
            }
            PatKind::Tuple(pats, ddpos) => {
                o.push(("p", J::s("Tuple")));
                o.push(("pats", J::Arr(pats.iter().map(|x| self.pat(x)).collect())));
                o.push(("rest", J::Bool(ddpos.as_opt_usize().is_some())));
            }
            PatKind::Box(x) => {
                o.push(("p", J::s("Box")));
                o.push(("pat", self.pat(x)));
            }
            PatKind::Deref(x) => {
                o.push(("p", J::s("Deref")));
                o.push(("pat", self.pat(x)));
            }
            PatKind::Ref(x, _, _) => {
                o.push(("p", J::s("Ref")));
                o.push(("pat", self.pat(x)));
            }
            PatKind::Guard(x, g) => {
                o.push(("p", J::s("Guard")));
                o.push(("pat", self.pat(x)));
                o.push(("guard", self.expr(g, None)));
            }
            PatKind::Expr(pe) => match &pe.kind {
                hir::PatExprKind::Lit { lit: l, negated } => {
                    o.push(("p", J::s("Lit")));
                    o.push(("v", lit(&l.node)));
                    o.push(("neg", J::Bool(*negated)));
                }
                hir::PatExprKind::Path(qp) => {
                    o.push(("p", J::s("Path")));
                    o.push(("res", self.qpath(qp, pe.hir_id)));
                }
            },
            PatKind::Range(lo, hi, end) => {
                o.push(("p", J::s("Range")));
                let lit_of = |pe: &hir::PatExpr<'tcx>| -> J {
                    match &pe.kind {
                        hir::PatExprKind::Lit { lit: l, negated } => {
                            let v = lit(&l.node);
                            match (v, negated) {
                                (J::Num(n), true) => J::Num(-n),
                                (v, _) => v,
                            }
                        }
                        hir::PatExprKind::Path(qp) => self.qpath(qp, pe.hir_id),
                        _ => J::Null,
                    }
                };
                if let Some(l) = lo {
                    o.push(("lo", lit_of(l)));
                }
                if let Some(h) = hi {
                    o.push(("hi", lit_of(h)));
                }
                o.push(("end", J::s(format!("{:?}", end))));
            }
            PatKind::Slice(a, m, b) => {
                o.push(("p", J::s("Slice")));
                o.push(("before", J::Arr(a.iter().map(|x| self.pat(x)).collect())));
                if let Some(m) = m {
                    o.push(("mid", self.pat(m)));
                }
                o.push(("after", J::Arr(b.iter().map(|x| self.pat(x)).collect())));
            }
            PatKind::Err(_) => o.push(("p", J::s("Err"))),
        }
        if let Some(t) = self.typeck.node_type_opt(p.hir_id) {
            o.push(("ty", J::s(ty_str(t))));
        }
        J::Obj(o)
    }
}

fn lit(l: &LitKind) -> J {
    match l {
        LitKind::Str(s, _) => J::s(s.as_str()),
        LitKind::ByteStr(..) | LitKind::CStr(..) => J::s("<bytes>"),
        LitKind::Byte(b) => J::Num(*b as i64),
        LitKind::Char(c) => J::s(c.to_string()),
        LitKind::Int(n, _) => {
            let v = n.get();
            if v <= i64::MAX as u128 {
                J::Num(v as i64)
            } else {
                J::s(v.to_string())
            }
        }
        LitKind::Float(s, _) => J::s(s.as_str()),
        LitKind::Bool(b) => J::Bool(*b),
        LitKind::Err(_) => J::Null,
    }
}

pub fn dump_body<'tcx>(tcx: TyCtxt<'tcx>, owner: LocalDefId) -> J {
    let def_id = owner.to_def_id();
    let typeck = tcx.typeck(owner);
    let cx = Cx { tcx, owner, typeck };
    let body = tcx.hir_body_owned_by(owner);
    let mut o = J::obj();
    o.push(("def_path", J::s(path_str(tcx, def_id))));
    let dk = tcx.def_kind(def_id);
    o.push(("kind", J::s(format!("{:?}", dk))));
    o.push(("name", J::s(tcx.item_name(def_id).as_str())));
    let (file, line, hi) = loc(tcx, tcx.def_span(def_id));
    o.push(("file", J::s(file)));
    o.push(("line", J::Num(line)));
    let (_f2, _l2, end) = loc(tcx, body.value.span);
    o.push(("end_line", J::Num(end.max(hi))));
    if matches!(dk, DefKind::Fn | DefKind::AssocFn) {
        o.push(("vis", J::s(format!("{:?}", tcx.visibility(def_id)))));
        let sig = tcx.fn_sig(def_id).instantiate_identity().skip_normalization().skip_binder();
        o.push(("ret_ty", J::s(ty_str(sig.output()))));
        o.push((
            "param_tys",
            J::Arr(sig.inputs().iter().map(|t| J::s(ty_str(*t))).collect()),
        ));
    }
    // enclosing impl
    if let Some(parent) = tcx.opt_parent(def_id) {
        if let DefKind::Impl { of_trait } = tcx.def_kind(parent) {
            let self_ty = tcx.type_of(parent).instantiate_identity().skip_normalization();
            let mut io = J::obj();
            io.push(("self_ty", J::s(ty_str(self_ty))));
            if of_trait {
                let tr = tcx.impl_trait_ref(parent).instantiate_identity().skip_normalization();
                io.push(("trait", J::s(with_no_trimmed_paths!(tr.print_only_trait_path().to_string()))));
                io.push(("trait_def", J::s(path_str(tcx, tr.def_id))));
            }
            o.push(("impl", J::Obj(io)));
        }
    }
    o.push(("params", J::Arr(body.params.iter().map(|p| cx.pat(p.pat)).collect())));
    o.push(("body", cx.expr(body.value, None)));
    J::Obj(o)
}

pub fn dump_adts<'tcx>(tcx: TyCtxt<'tcx>) -> Vec<J> {
    let mut out = Vec::new();
    for id in tcx.hir_free_items() {
        let def_id = id.owner_id.to_def_id();
        match tcx.def_kind(def_id) {
            DefKind::Struct | DefKind::Enum => {}
            _ => continue,
        }
        let adt = tcx.adt_def(def_id);
        let mut o = J::obj();
        o.push(("path", J::s(path_str(tcx, def_id))));
        o.push(("is_enum", J::Bool(adt.is_enum())));
        let (file, line, _) = loc(tcx, tcx.def_span(def_id));
        o.push(("file", J::s(file)));
        o.push(("line", J::Num(line)));
        let mut vs = Vec::new();
        for v in adt.variants().iter() {
            let mut vo = J::obj();
            vo.push(("name", J::s(v.name.as_str())));
            vo.push(("ctor", J::s(format!("{:?}", v.ctor_kind()))));
            let mut fs = Vec::new();
            for f in v.fields.iter() {
                let mut fo = J::obj();
                fo.push(("name", J::s(f.name.as_str())));
                let t = tcx.type_of(f.did).instantiate_identity().skip_normalization();
                fo.push(("ty", J::s(ty_str(t))));
                fs.push(J::Obj(fo));
            }
            vo.push(("fields", J::Arr(fs)));
            vs.push(J::Obj(vo));
        }
        o.push(("variants", J::Arr(vs)));
        out.push(J::Obj(o));
    }
    out
}

pub fn dump_impls<'tcx>(tcx: TyCtxt<'tcx>) -> Vec<J> {
    let mut out = Vec::new();
    for id in tcx.hir_free_items() {
        let def_id = id.owner_id.to_def_id();
        if let DefKind::Impl { of_trait } = tcx.def_kind(def_id) {
            let mut o = J::obj();
            let self_ty = tcx.type_of(def_id).instantiate_identity().skip_normalization();
            o.push(("self_ty", J::s(ty_str(self_ty))));
            if of_trait {
                let tr = tcx.impl_trait_ref(def_id).instantiate_identity().skip_normalization();
                o.push(("trait", J::s(with_no_trimmed_paths!(tr.print_only_trait_path().to_string()))));
            }
            let (file, line, _) = loc(tcx, tcx.def_span(def_id));
            o.push(("file", J::s(file)));
            o.push(("line", J::Num(line)));
            let derived = tcx.def_span(def_id).from_expansion();
            o.push(("from_expansion", J::Bool(derived)));
            let mut items = Vec::new();
            for item in tcx.associated_items(def_id).in_definition_order() {
                items.push(J::s(path_str(tcx, item.def_id)));
            }
            o.push(("items", J::Arr(items)));
            out.push(J::Obj(o));
        }
    }
    out
}
