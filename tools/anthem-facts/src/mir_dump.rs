use crate::hir_dump::{loc, path_str, ty_str};
use crate::json::J;
use rustc_hir::def_id::LocalDefId;
use rustc_middle::mir::{self, Operand, TerminatorKind, VarDebugInfoContents};
use rustc_middle::ty::{self, Instance, TyCtxt, TypingEnv};

fn operand<'tcx>(tcx: TyCtxt<'tcx>, op: &Operand<'tcx>) -> J {
    let mut o = J::obj();
    match op {
        Operand::Copy(p) | Operand::Move(p) => {
            o.push(("local", J::Num(p.local.as_u32() as i64)));
            if !p.projection.is_empty() {
                o.push(("proj", J::s(format!("{:?}", p.projection))));
            }
        }
        Operand::Constant(c) => {
            let t = c.const_.ty();
            if let ty::FnDef(did, _) = t.kind() {
                o.push(("fn", J::s(path_str(tcx, *did))));
            } else {
                o.push(("const", J::s(format!("{}", c.const_))));
            }
        }
        #[allow(unreachable_patterns)]
        _ => {
            o.push(("other", J::s(format!("{:?}", op))));
        }
    }
    J::Obj(o)
}

pub fn dump_mir<'tcx>(tcx: TyCtxt<'tcx>, owner: LocalDefId) -> J {
    let def_id = owner.to_def_id();
    let body: &mir::Body<'tcx> = tcx.optimized_mir(def_id);
    let env = TypingEnv::post_analysis(tcx, def_id);
    let mut o = J::obj();
    o.push(("def_path", J::s(path_str(tcx, def_id))));
    o.push(("kind", J::s(format!("{:?}", tcx.def_kind(def_id)))));
    let (file, line, _) = loc(tcx, tcx.def_span(def_id));
    o.push(("file", J::s(file)));
    o.push(("line", J::Num(line)));
    // parent for closures
    if let Some(p) = tcx.opt_parent(def_id) {
        o.push(("parent", J::s(path_str(tcx, p))));
    }
    let mut vars = Vec::new();
    for v in body.var_debug_info.iter() {
        if let VarDebugInfoContents::Place(p) = v.value {
            let mut vo = J::obj();
            vo.push(("name", J::s(v.name.as_str())));
            vo.push(("local", J::Num(p.local.as_u32() as i64)));
            if !p.projection.is_empty() {
                vo.push(("proj", J::s(format!("{:?}", p.projection))));
            }
            vars.push(J::Obj(vo));
        }
    }
    o.push(("vars", J::Arr(vars)));
    o.push(("arg_count", J::Num(body.arg_count as i64)));
    let mut locals = Vec::new();
    for (l, d) in body.local_decls.iter_enumerated() {
        let mut lo = J::obj();
        lo.push(("local", J::Num(l.as_u32() as i64)));
        lo.push(("ty", J::s(ty_str(d.ty))));
        locals.push(J::Obj(lo));
    }
    o.push(("locals", J::Arr(locals)));
    let doms = body.basic_blocks.dominators();
    let mut blocks = Vec::new();
    for (bb, data) in body.basic_blocks.iter_enumerated() {
        let mut bo = J::obj();
        bo.push(("id", J::Num(bb.as_u32() as i64)));
        bo.push(("cleanup", J::Bool(data.is_cleanup)));
        if doms.is_reachable(bb) {
            if let Some(d) = doms.immediate_dominator(bb) {
                bo.push(("idom", J::Num(d.as_u32() as i64)));
            }
        } else {
            bo.push(("unreachable", J::Bool(true)));
        }
        let mut stmts = Vec::new();
        for s in data.statements.iter() {
            match &s.kind {
                mir::StatementKind::Assign(b) => {
                    let (place, rv) = &**b;
                    let mut so = J::obj();
                    so.push(("dst", J::Num(place.local.as_u32() as i64)));
                    if !place.projection.is_empty() {
                        so.push(("dst_proj", J::s(format!("{:?}", place.projection))));
                    }
                    so.push(("rv", J::s(format!("{:?}", rv))));
                    let (_f, l, _) = loc(tcx, s.source_info.span);
                    so.push(("line", J::Num(l)));
                    stmts.push(J::Obj(so));
                }
                _ => {}
            }
        }
        bo.push(("stmts", J::Arr(stmts)));
        let term = data.terminator();
        let mut to = J::obj();
        let (_f, l, _) = loc(tcx, term.source_info.span);
        to.push(("line", J::Num(l)));
        to.push(("exp", J::Bool(term.source_info.span.from_expansion())));
        let succ: Vec<J> = term.successors().map(|b| J::Num(b.as_u32() as i64)).collect();
        match &term.kind {
            TerminatorKind::Call { func, args, destination, target, .. } => {
                to.push(("t", J::s("Call")));
                if let Some((did, gargs)) = func.const_fn_def() {
                    to.push(("callee", J::s(path_str(tcx, did))));
                    let r = if gargs.len() == tcx.generics_of(did).count() {
                        std::panic::catch_unwind(std::panic::AssertUnwindSafe(|| {
                            Instance::try_resolve(tcx, env, did, gargs)
                        }))
                    } else {
                        Ok(Ok(None))
                    };
                    if let Ok(Ok(Some(inst))) = r {
                        to.push(("callee_res", J::s(path_str(tcx, inst.def_id()))));
                        if let ty::InstanceKind::Virtual(..) = inst.def {
                            to.push(("virtual", J::Bool(true)));
                        }
                    }
                    to.push(("gargs", J::s(format!("{:?}", gargs))));
                } else {
                    to.push(("callee_op", operand(tcx, func)));
                    let t = func.ty(&body.local_decls, tcx);
                    to.push(("callee_ty", J::s(ty_str(t))));
                }
                to.push(("args", J::Arr(args.iter().map(|a| operand(tcx, &a.node)).collect())));
                to.push(("dst", J::Num(destination.local.as_u32() as i64)));
                if let Some(t) = target {
                    to.push(("target", J::Num(t.as_u32() as i64)));
                }
            }
            TerminatorKind::TailCall { func, .. } => {
                to.push(("t", J::s("TailCall")));
                if let Some((did, _)) = func.const_fn_def() {
                    to.push(("callee", J::s(path_str(tcx, did))));
                }
            }
            TerminatorKind::Assert { msg, expected, cond, .. } => {
                to.push(("t", J::s("Assert")));
                let kind = format!("{:?}", msg);
                let kind_name: String = kind.chars().take_while(|c| c.is_alphanumeric()).collect();
                to.push(("assert", J::s(kind_name)));
                to.push(("msg", J::s(kind)));
                to.push(("expected", J::Bool(*expected)));
                to.push(("cond", operand(tcx, cond)));
            }
            TerminatorKind::SwitchInt { discr, targets } => {
                to.push(("t", J::s("SwitchInt")));
                to.push(("discr", operand(tcx, discr)));
                let vals: Vec<J> = targets
                    .iter()
                    .map(|(v, b)| J::Arr(vec![J::s(v.to_string()), J::Num(b.as_u32() as i64)]))
                    .collect();
                to.push(("cases", J::Arr(vals)));
                to.push(("otherwise", J::Num(targets.otherwise().as_u32() as i64)));
            }
            TerminatorKind::Return => to.push(("t", J::s("Return"))),
            TerminatorKind::Goto { .. } => to.push(("t", J::s("Goto"))),
            TerminatorKind::Drop { place, .. } => {
                to.push(("t", J::s("Drop")));
                to.push(("local", J::Num(place.local.as_u32() as i64)));
            }
            TerminatorKind::Unreachable => to.push(("t", J::s("Unreachable"))),
            TerminatorKind::UnwindResume => to.push(("t", J::s("UnwindResume"))),
            TerminatorKind::UnwindTerminate(_) => to.push(("t", J::s("UnwindTerminate"))),
            TerminatorKind::FalseEdge { .. } => to.push(("t", J::s("FalseEdge"))),
            TerminatorKind::FalseUnwind { .. } => to.push(("t", J::s("FalseUnwind"))),
            other => to.push(("t", J::s(format!("{:?}", std::mem::discriminant(other))))),
        }
        to.push(("succ", J::Arr(succ)));
        bo.push(("term", J::Obj(to)));
        blocks.push(J::Obj(bo));
    }
    o.push(("blocks", J::Arr(blocks)));
    J::Obj(o)
}
