//! anthem-facts: a rustc_private driver that dumps the type-checked program of the
//! `anthem` crate (typed HIR bodies with resolved paths / callees, ADT definitions, MIR
//! control-flow with resolved call terminators and dominators) as JSON facts.
//!
//! It is injected with RUSTC_WORKSPACE_WRAPPER under `cargo +nightly check`, so it sees the
//! crate exactly as the real build does (Cargo.toml, Cargo.lock, edition, features).
//! Output: $ANTHEM_FACTS_OUT/facts-<lib|bin>.json, one write per process.
#![feature(rustc_private)]

extern crate rustc_abi;
extern crate rustc_ast;
extern crate rustc_driver;
extern crate rustc_hir;
extern crate rustc_interface;
extern crate rustc_middle;
extern crate rustc_session;
extern crate rustc_span;

mod hir_dump;
mod json;
mod mir_dump;

use json::J;
use rustc_driver::Compilation;
use rustc_hir::def::DefKind;
use rustc_middle::ty::TyCtxt;
use rustc_span::def_id::LOCAL_CRATE;

struct Cb;

impl rustc_driver::Callbacks for Cb {
    fn after_analysis<'tcx>(
        &mut self,
        _compiler: &rustc_interface::interface::Compiler,
        tcx: TyCtxt<'tcx>,
    ) -> Compilation {
        let name = tcx.crate_name(LOCAL_CRATE);
        let want = std::env::var("ANTHEM_FACTS_CRATE").unwrap_or_else(|_| "anthem".to_string());
        if name.as_str() == want {
            if let Ok(dir) = std::env::var("ANTHEM_FACTS_OUT") {
                dump(tcx, &dir);
            }
        }
        Compilation::Continue
    }
}

fn dump<'tcx>(tcx: TyCtxt<'tcx>, dir: &str) {
    use rustc_session::config::CrateType;
    let kind = if tcx.crate_types().iter().any(|t| matches!(t, CrateType::Executable)) {
        "bin"
    } else {
        "lib"
    };
    let mut bodies = Vec::new();
    let mut mirs = Vec::new();
    let mut n_bodies = 0i64;
    for owner in tcx.hir_body_owners() {
        let def_id = owner.to_def_id();
        let dk = tcx.def_kind(def_id);
        match dk {
            DefKind::Fn | DefKind::AssocFn | DefKind::Const { .. } | DefKind::Static { .. } | DefKind::AssocConst { .. } => {
                bodies.push(hir_dump::dump_body(tcx, owner));
                n_bodies += 1;
            }
            _ => {}
        }
        match dk {
            DefKind::Fn | DefKind::AssocFn | DefKind::Closure => {
                mirs.push(mir_dump::dump_mir(tcx, owner));
            }
            _ => {}
        }
    }
    let adts = hir_dump::dump_adts(tcx);
    let impls = hir_dump::dump_impls(tcx);
    let mut top = J::obj();
    top.push(("crate", J::s(tcx.crate_name(LOCAL_CRATE).as_str())));
    top.push(("crate_kind", J::s(kind)));
    top.push(("n_bodies", J::Num(n_bodies)));
    top.push(("bodies", J::Arr(bodies)));
    top.push(("mir", J::Arr(mirs)));
    top.push(("adts", J::Arr(adts)));
    top.push(("impls", J::Arr(impls)));
    let mut out = String::new();
    J::Obj(top).write(&mut out);
    let path = format!("{}/facts-{}.json", dir, kind);
    std::fs::write(&path, out).expect("write facts");
}

fn main() {
    let mut args: Vec<String> = std::env::args().collect();
    // As RUSTC_WORKSPACE_WRAPPER we are called as `<drv> <rustc> <args..>`.
    if args.len() > 1 && (args[1].ends_with("rustc") || args[1].contains("/rustc")) {
        args.remove(1);
    }
    args[0] = "rustc".to_string();
    rustc_driver::run_compiler(&args, &mut Cb);
}
