#!/usr/bin/env python3
"""Validate MANIFEST.json and evidence/*.json against the given schemas (uses the tooling venv's jsonschema)."""
import glob, json, sys
import jsonschema
m = json.load(open('/verif/MANIFEST.json')); jsonschema.validate(m, json.load(open('/root/.vp/MANIFEST.schema.json')))
s = json.load(open('/root/.vp/EVIDENCE.schema.json'))
for f in sorted(glob.glob('/verif/evidence/*.json')):
    jsonschema.validate(json.load(open(f)), s)
print("manifest + %d evidence files valid" % len(glob.glob('/verif/evidence/*.json')))
