#!/usr/bin/env python3
"""Debug aid: print the extracted HIR of a function in compact indented form."""
import sys, os, json
sys.path.insert(0, os.path.dirname(os.path.dirname(os.path.abspath(__file__))))
from rules import facts
from rules.hq import pat_key, last

def show(n, ind=0, label=""):
    pad = "  " * ind
    if not isinstance(n, dict):
        print(pad + label + repr(n)); return
    k = n.get("k") or n.get("p")
    extra = []
    for key in ("name", "method", "op", "src", "v", "callee_res", "callee", "mac", "desugar", "line"):
        if key in n and not isinstance(n[key], (dict, list)):
            extra.append("%s=%s" % (key, n[key]))
    if "res" in n:
        r = n["res"]
        extra.append("res=" + (r.get("name") or (last(r.get("adt","")) + "::" + str(r.get("variant"))) if r.get("r") in ("local","ctor") else r.get("path", "?")))
        if r.get("r") == "local": extra.append("id=%s" % r["id"])
    if "ty" in n: extra.append("ty=" + n["ty"][:60])
    if "mac_src" in n: extra.append("SRC=" + n["mac_src"][:80].replace("\n", " "))
    print(pad + label + str(k) + "  " + " ".join(extra))
    if n.get("k") == "Match":
        show(n["scrut"], ind + 1, "scrut: ")
        for a in n["arms"]:
            print(pad + "  arm " + pat_key(a["pat"]) + ("  [guard]" if "guard" in a else ""))
            if "guard" in a: show(a["guard"], ind + 2, "guard: ")
            show(a["body"], ind + 2)
        return
    for key, v in n.items():
        if key in ("res", "pat") and key != "pat": continue
        if key == "pat":
            print(pad + "  pat: " + pat_key(v) + "  " + " ".join("%s#%s" % (b["name"], b["id"]) for b in facts.pat_bindings(v)))
            continue
        if isinstance(v, dict):
            show(v, ind + 1, key + ": ")
        elif isinstance(v, list) and v and isinstance(v[0], dict):
            for i, x in enumerate(v):
                if key == "fields" and "name" in x and "e" in x:
                    show(x["e"], ind + 1, "%s.%s: " % (key, x["name"]))
                else:
                    show(x, ind + 1, "%s[%d]: " % (key, i))

fx = facts.load()
for b in fx.fns(sys.argv[1]):
    print("==", b["def_path"], b["file"], b["line"], b.get("impl"))
    if len(sys.argv) > 2 and sys.argv[2] == "mir":
        m = fx.mir_of(b["def_path"])
        for bl in m["blocks"]:
            print(bl["id"], "idom", bl.get("idom"), {k: v for k, v in bl["term"].items() if k not in ("gargs",)})
    else:
        show(b["body"])
