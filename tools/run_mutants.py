#!/usr/bin/env python3
"""Run catalogued self-test mutants: tools/run_mutants.py [id ...]   (all if none given)"""
import sys, os
sys.path.insert(0, os.path.dirname(os.path.dirname(os.path.abspath(__file__)))); sys.dont_write_bytecode = True
from rules import selftest
ids = set(sys.argv[1:])
bad = 0
for m in selftest.load_catalog():
    if ids and m["id"] not in ids: continue
    for p in m["props"]:
        if not os.path.exists(os.path.join(selftest.F.VERIF, "rules", "props", p.lower() + ".py")): continue
        r = selftest.run_mutant(m, p, selftest.F.repo_dir())
        print(m["id"], p, r["status"], r.get("fired", r.get("why")))
        if r["status"] not in ("detected", "silent-ok"): bad += 1
sys.exit(1 if bad else 0)
