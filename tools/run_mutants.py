#!/usr/bin/env python3
"""Run catalogued self-test mutants: tools/run_mutants.py [-j N] [id ...]   (all if none given).
Results are merged into selftest/last_results.json (informational; regenerates selftest/CATALOGUE.md via tools/mkcatalogue.py)."""
import sys, os, json
from concurrent.futures import ThreadPoolExecutor
sys.path.insert(0, os.path.dirname(os.path.dirname(os.path.abspath(__file__)))); sys.dont_write_bytecode = True
from rules import selftest
args = sys.argv[1:]
jobs = 4
if args[:1] == ["-j"]:
    jobs = int(args[1]); args = args[2:]
ids = set(args)
work = []
for m in selftest.load_catalog():
    if ids and m["id"] not in ids: continue
    for p in m["props"]:
        if not os.path.exists(os.path.join(selftest.F.VERIF, "rules", "props", p.lower() + ".py")): continue
        work.append((m, p))
def one(mp):
    m, p = mp
    r = selftest.run_mutant(m, p, selftest.F.repo_dir())
    return m, p, r
bad = 0
res_path = os.path.join(selftest.F.VERIF, "selftest", "last_results.json")
try:
    results = json.load(open(res_path))
except Exception:
    results = {}
with ThreadPoolExecutor(max_workers=jobs) as ex:
    for m, p, r in ex.map(one, work):
        print(m["id"], p, r["status"], r.get("fired", r.get("why")), flush=True)
        results["%s/%s" % (m["id"], p)] = {"status": r["status"], "fired": r.get("fired", [])[:6]}
        if r["status"] not in ("detected", "silent-ok"): bad += 1
json.dump(results, open(res_path, "w"), indent=1, sort_keys=True)
sys.exit(1 if bad else 0)
