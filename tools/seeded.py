#!/usr/bin/env python3
"""Handling of seeded changes written by sub-agents.

  tools/seeded.py confirm <Cxx> <k>     in the scratch worktree /tmp/wt-<Cxx>: the patch applies, the crate builds, the pinned test suite
                                        still passes (only the baseline failure), demo.sh exits 1 with the change and 0 without
  tools/seeded.py check <Cxx> <k> [props..]   git -C /repo apply; run the checks; git -C /repo checkout -- .   (records which obligations fire)
  tools/seeded.py keep <Cxx> <k> "<change>" "<needs>"    copy into /verif/seeded/<Cxx>-<k>/ with meta.json
"""
import json, os, shutil, subprocess, sys
V = os.path.dirname(os.path.dirname(os.path.abspath(__file__)))
OUT = "/tmp/seeded-out"
BASELINE_FAIL = {"translate::tau_star::translate_examples"}


def sh(cmd, cwd=None, env=None, timeout=3600):
    e = dict(os.environ)
    e["CARGO_NET_OFFLINE"] = "true"
    if env:
        e.update(env)
    p = subprocess.run(cmd, cwd=cwd, env=e, shell=isinstance(cmd, str), stdout=subprocess.PIPE, stderr=subprocess.STDOUT, text=True, timeout=timeout)
    return p.returncode, p.stdout


def state(pid, k):
    p = os.path.join(OUT, pid, str(k), "state.json")
    try:
        return p, json.load(open(p))
    except Exception:
        return p, {}


def confirm(pid, k):
    wt = "/tmp/wt-" + pid
    d = os.path.join(OUT, pid, str(k))
    sp, st = state(pid, k)
    sh("git checkout -- . && git clean -fdq -e target", cwd=wt)
    rc, out = sh(["git", "apply", "--check", os.path.join(d, "patch.diff")], cwd=wt)
    st["applies"] = rc == 0
    if rc != 0:
        print("patch does not apply:", out)
        json.dump(st, open(sp, "w"), indent=1)
        return 1
    # demo on the unchanged tree
    rc0, out0 = sh(["bash", os.path.join(d, "demo.sh"), wt], cwd=d)
    st["demo_without"] = rc0
    sh(["git", "apply", os.path.join(d, "patch.diff")], cwd=wt)
    rcb, outb = sh("cargo build --offline 2>&1 | tail -3", cwd=wt)
    rct, outt = sh("cargo test --workspace --no-fail-fast --offline 2>&1", cwd=wt)
    failed = set()
    for l in outt.splitlines():
        l = l.strip()
        if l.startswith("test ") and l.endswith("FAILED"):
            failed.add(l.split()[1])
    npass = sum(int(l.split("ok.")[1].split("passed")[0]) for l in outt.splitlines() if l.startswith("test result: ok."))
    st["tests_failed"] = sorted(failed)
    st["tests_passed"] = npass
    st["tests_ok"] = failed <= BASELINE_FAIL and npass >= 140
    rc1, out1 = sh(["bash", os.path.join(d, "demo.sh"), wt], cwd=d)
    st["demo_with"] = rc1
    sh("git checkout -- . && git clean -fdq -e target", cwd=wt)
    st["confirmed"] = bool(st["tests_ok"] and rc1 == 1 and rc0 == 0)
    json.dump(st, open(sp, "w"), indent=1)
    print(pid, k, "applies", st["applies"], "tests_ok", st["tests_ok"], "failed", st["tests_failed"], "passed", npass, "demo with/without", rc1, rc0, "=> confirmed", st["confirmed"])
    if not st["confirmed"]:
        print(out1[-1500:])
    return 0 if st["confirmed"] else 1


def check(pid, k, props):
    d = os.path.join(OUT, pid, str(k))
    if not os.path.isdir(d):
        d = os.path.join(V, "seeded", "%s-%s" % (pid, k))
    sp, st = state(pid, k)
    rc, out = sh("git status --porcelain", cwd="/repo")
    if out.strip():
        print("/repo is not clean:", out)
        return 2
    rc, out = sh(["git", "-C", "/repo", "apply", os.path.join(d, "patch.diff")])
    if rc != 0:
        print("apply failed", out)
        return 2
    fired = {}
    try:
        for p in props:
            rc, out = sh([os.path.join(V, "check"), p, "--tier", "quick"], cwd=V, env={"VERIF_OUT_DIR": "/tmp/seeded-out/.out"})
            keys = [l.split()[1] for l in out.splitlines() if l.strip().startswith(("violated ", "ANALYSIS-GAP "))]
            fired[p] = {"exit": rc, "keys": keys}
            print(p, "exit", rc, keys[:6])
    finally:
        sh(["git", "-C", "/repo", "checkout", "--", "."])
        sh("git -C /repo clean -fdq -e target")
    st["fired"] = fired
    st["caught"] = any(v["exit"] != 0 for v in fired.values())
    if os.path.dirname(sp) and os.path.isdir(os.path.dirname(sp)):
        json.dump(st, open(sp, "w"), indent=1)
    return 0


def keep(pid, k, change, needs):
    d = os.path.join(OUT, pid, str(k))
    sp, st = state(pid, k)
    dst = os.path.join(V, "seeded", "%s-%s" % (pid, k))
    shutil.rmtree(dst, ignore_errors=True)
    os.makedirs(dst)
    for f in os.listdir(d):
        if f in ("state.json", "test.log") or f.endswith(".log"):
            continue
        src = os.path.join(d, f)
        if os.path.isdir(src):
            if f in ("target", "scratch"):
                continue
            shutil.copytree(src, os.path.join(dst, f))
        elif os.path.getsize(src) < 200000:
            shutil.copy2(src, os.path.join(dst, f))
    fired = []
    for p, v in (st.get("fired") or {}).items():
        if v["exit"] != 0:
            fired += ["%s:%s" % (p, x) for x in v["keys"][:4]]
    meta = {"id": "%s-%s" % (pid, k), "property": pid, "change": change, "needs": needs,
            "tests_pass": "yes (%d pass; only the baseline UI failure)" % st.get("tests_passed", 0) if st.get("tests_ok") else "NO",
            "demo": "fails with (exit %s) / passes without (exit %s)" % (st.get("demo_with"), st.get("demo_without")),
            "ran": ["tools/seeded.py confirm %s %s  (scratch worktree /tmp/wt-%s: git apply, cargo build, cargo test --workspace --no-fail-fast --offline, demo.sh with and without the change)" % (pid, k, pid),
                    "tools/seeded.py check %s %s <properties>  (git -C /repo apply; ./check <property> --tier quick; git -C /repo checkout -- .)" % (pid, k)],
            "checks_run": {p: v["exit"] for p, v in (st.get("fired") or {}).items()},
            "caught": "yes" if st.get("caught") else "no", "fired": fired}
    json.dump(meta, open(os.path.join(dst, "meta.json"), "w"), indent=1)
    print("kept", dst, meta["caught"], fired[:4])


def triage(pid, k, props):
    """like check, but against the scratch worktree (ANTHEM_REPO), leaving /repo alone"""
    wt = "/tmp/wt-" + pid
    d = os.path.join(OUT, pid, str(k))
    sh("git checkout -- . && git clean -fdq -e target", cwd=wt)
    rc, out = sh(["git", "apply", os.path.join(d, "patch.diff")], cwd=wt)
    try:
        for p in props:
            rc, out = sh([os.path.join(V, "check"), p, "--tier", "quick"], cwd=V, env={"VERIF_OUT_DIR": "/tmp/seeded-out/.out-" + pid, "ANTHEM_REPO": wt, "VERIF_SELFTEST_CHILD": "1"})
            keys = [l.split()[1] for l in out.splitlines() if l.strip().startswith(("violated ", "ANALYSIS-GAP "))]
            print(pid, k, p, "exit", rc, keys[:6])
    finally:
        sh("git checkout -- . && git clean -fdq -e target", cwd=wt)


def refactor(pid, k, props):
    """behaviour-preserving refactoring probe: apply /tmp/refactor-out/<pid>/<k>/patch.diff in the worktree, run the tests, run the checks (they should stay silent)"""
    wt = os.environ.get("PROBE_WT", "/tmp/wt-" + pid)
    d = os.path.join("/tmp/refactor-out", pid, str(k))
    sh("git checkout -- . && git clean -fdq -e target", cwd=wt)
    rc, out = sh(["git", "apply", os.path.join(d, "patch.diff")], cwd=wt)
    if rc != 0:
        print(pid, k, "patch does not apply", out[-300:])
        return
    res = {}
    try:
        prev = {}
        try:
            prev = json.load(open(os.path.join(d, "result.json")))
        except Exception:
            pass
        if prev.get("tests_ok") is True:
            res["tests_ok"] = True   # confirmed in an earlier run of this probe
        else:
            rct, outt = sh("cargo test --workspace --no-fail-fast --offline 2>&1", cwd=wt)
            failed = {l.split()[1] for l in outt.splitlines() if l.strip().startswith("test ") and l.strip().endswith("FAILED")}
            res["tests_ok"] = failed <= BASELINE_FAIL
        for p in props:
            rc, out = sh([os.path.join(V, "check"), p, "--tier", "quick"], cwd=V, env={"VERIF_OUT_DIR": "/tmp/refactor-out/.out-" + pid, "ANTHEM_REPO": wt, "VERIF_SELFTEST_CHILD": "1"})
            keys = [l.split()[1] for l in out.splitlines() if l.strip().startswith(("violated ", "ANALYSIS-GAP "))]
            if rc != 0:
                res[p] = keys[:8]
    finally:
        sh("git checkout -- . && git clean -fdq -e target", cwd=wt)
    json.dump(res, open(os.path.join(d, "result.json"), "w"), indent=1)
    print(pid, k, "tests_ok", res.get("tests_ok"), {k_: v for k_, v in res.items() if k_ != "tests_ok"} or "all checks silent")


def probe_keep(pid, k):
    """copy a refactoring probe (patch, notes, latest result) from /tmp/refactor-out into /verif/probes/<pid>-<k>/"""
    import shutil
    d = os.path.join("/tmp/refactor-out", pid, str(k))
    out = os.path.join(V, "probes", "%s-%s" % (pid, k))
    os.makedirs(out, exist_ok=True)
    for f in ("patch.diff", "notes.md"):
        shutil.copy(os.path.join(d, f), os.path.join(out, f))
    res = json.load(open(os.path.join(d, "result.json")))
    title = open(os.path.join(d, "notes.md")).readline().strip().lstrip("# ").strip()
    what = title.split("/", 1)[1].strip() if "/" in title.split(" - ")[0].split(" \u2014 ")[0] else title
    what = what[:1].upper() + what[1:]
    firing = {p_: v for p_, v in res.items() if p_ != "tests_ok"}
    meta = {"id": "%s-%s" % (pid, k), "anchored_property": pid, "what": what,
            "kind": "behaviour-preserving refactoring written by a sub-agent (property text + worktree only); outputs compared byte for byte by the agent, pinned tests re-run by me",
            "tests_pass": bool(res.get("tests_ok")), "checks_firing": firing, "silent": not firing}
    json.dump(meta, open(os.path.join(out, "meta.json"), "w"), indent=1)
    print(meta["id"], "silent" if meta["silent"] else firing)


if __name__ == "__main__":
    a = sys.argv[1:]
    if a[0] == "probe-keep":
        probe_keep(a[1], a[2]); sys.exit(0)
    if a[0] == "confirm":
        sys.exit(confirm(a[1], a[2]))
    if a[0] == "check":
        sys.exit(check(a[1], a[2], a[3:] or [a[1]]))
    if a[0] == "triage":
        triage(a[1], a[2], a[3:] or [a[1]])
    if a[0] == "refactor":
        refactor(a[1], a[2], a[3:] or ["C%02d" % i for i in range(1, 21)])
    if a[0] == "keep":
        keep(a[1], a[2], a[3], a[4])
