#!/usr/bin/env python3
"""Rewrites section 0.8 of DESIGN.md (robustness probes) from probes/*/meta.json."""
import json, glob, os
V = os.path.dirname(os.path.dirname(os.path.abspath(__file__)))
metas = [json.load(open(f)) for f in sorted(glob.glob(os.path.join(V, "probes", "*", "meta.json")))]
n = len(metas)
silent = sum(1 for m in metas if m["silent"])
rows = []
for m in metas:
    fired = "; ".join("%s: %s" % (p, ", ".join("`%s`" % k for k in ks[:2]) + (" (+%d)" % (len(ks) - 2) if len(ks) > 2 else "")) for p, ks in sorted(m["checks_firing"].items()))
    rows.append("| %s | %s | %s |" % (m["id"], m["what"].replace("|", "/"), "silent" if m["silent"] else fired))
text = """### 0.8 Robustness probes: behaviour-preserving refactorings (what the checks do on code where the property still holds)

The seeded changes measure detection. To measure the other side — *never raise an alarm on code where the property holds* — twenty more
sub-agents (property text + worktree only) were each asked for three realistic **behaviour-preserving** refactorings of the code their
property is anchored in (extract / inline a helper, loop <-> iterator chain, `match` <-> `if let` / `let else`, merged match arms, local
closures, code motion). Each agent compared the tool's outputs byte for byte before and after on hundreds to thousands of runs (shipped examples
under all flag combinations plus hand-written and random inputs); I re-ran the pinned tests. Three more probes (`X00-1` .. `X00-3`) are mine: they
only *rename* locals and parameters across the files the rules read (13 rules looked locals up by name; they now find them by role - the
argument of a call, the field of a struct literal, the parameter position). In a **second round** twenty fresh sub-agents wrote two more
refactorings each (`Cxx-4`, `Cxx-5`: 40 patches, on average larger than the first sixty - several restructure a whole function or move a
table into its own `Display` impl), and four more probes of mine (`X00-4` .. `X00-7`) rename and move *functions* and fields the rules are
anchored on. In a **third round** twenty more sub-agents wrote two refactorings each (`Cxx-6`, `Cxx-7`) of kinds the first two rounds
had not asked for: an *API / data-flow* clean-up (a private struct or enum introduced for what was passed as several parameters, a free
function turned into a method, a changed private signature, one function split into named steps, a `const` hoisted) and a *control-flow*
normalisation (guard clauses, inverted conditions, De Morgan, a match on a tuple, `find` / `any` / `fold` / `try_fold` for loops, slice
patterns, `let .. else`, explicit matches for `?`). In a **fourth round** twenty more sub-agents wrote two *commits a maintainer makes that
are not refactorings of the property's logic*: `Cxx-8`, a maintenance / performance / lint-style commit (`with_capacity` / `reserve`, needless
clones and collects removed, in-place updates, clippy-style rewrites, `write_str`, `#[must_use]`, hoisted invariants, `&[T]` for `&Vec<T>`) and
`Cxx-9`, a small orthogonal *addition* next to the property's code (a new accessor / `Display` / `From` impl, a bounded variant of
`apply_fixpoint`, new unit tests, a `debug_assert!`). In a **fifth round** twenty more sub-agents wrote a *type-level / interface* commit
(`Cxx-10`: type aliases, a private struct or enum for a tuple / a pair of booleans / an operator subset, `impl Trait` parameters, a nested
function turned into the method of a private trait, `TryFrom` <-> an associated function, helpers moved into an `impl`) and an *expression-style*
commit (`Cxx-11`: itertools adaptors - `format`, `join`, `sorted`, `tuple_windows`, `zip_eq`, `fold_ok` -, `std::iter::zip` / `successors`,
`Option` / `Result` combinators, `retain`, `mem::take`, `extend_from_slice`, `find` over an unbounded range for a counter loop). The %d patches are kept in `probes/<id>/` and are negative controls (`R-<id>`) of the
self-test.

**First runs: 28 of the first 30 refactorings, 12 of the next 15 (C10, C11, C14, C17, C20) and 12 of the last 15 (C12, C15, C16, C18, C19) made at
least one check fail** (almost all as template mismatches or fail-closed analysis gaps). That
is the honest weakness of this family of technique as I built it: the extracted templates are tied to the shape of the constructors.
I then removed the causes that were generic rather than specific to one probe:

* **Helper extraction is transparent.** `rules/known_functions.txt` lists every function of the crate at the time the rules were written;
  a crate-local function that is *not* listed is a helper introduced later and is inlined by the symbolic evaluator at its call sites
  (depth-limited, recursion-guarded). Panic-site tables (C16, C10) accept a site that moved to another function of the same file as long as
  a tabled site of the same kind disappeared from its listed function; C08's sort-site table counts per file.
* **One form for loops and iterator chains** (`ftpl.canon_iter`): `for x in L { v.push(E) }`, `L.iter().map(|x| E).collect()`,
  `zip` / `enumerate` variants and `.max().unwrap_or(0)` folds are rewritten to one comprehension form with `('at', L)` (current element)
  and `('idx', L)` (its position); C01's references, the global-variable chooser, C09's unique-name rule, C16's globals-cover rule and C08's
  mu fallback are stated on that form.
* **Per-constructor specialisation instead of comparing `match` structure.** Functions are evaluated on one concrete constructor at a time
  (operands opaque); `match`, `if let`, guards (`matches!`, comparisons of literals) and `if` over literal values are decided by the
  evaluator, closures and loop bodies can be specialised on a concrete argument / element. gamma (C05), prepend_predicate (C05), the typed
  comparison printer (C06 / C09: 96 cases), val (C01) and the regularity tests (C08) are checked this way, so merged arms, nested matches on
  the connective, tuple matches and extracted per-case helpers do not matter.
* **Decision trees instead of statement shapes** (`rules/leaves.py`). A flag or a result is evaluated symbolically and turned into its
  paths (conjunction of atomic facts on *normalised subjects* -> value): `if !matches!(..) { ok = false }`, `ok &= helper(..)`,
  `match r.map(|x| (x.status(), x)) { Ok((Ok(s), _)) => .. }`, `let .. else` and early `continue` are one tree. C10's verdict rule (the flag
  survives an iteration only on Ok / Ok / Success(Theorem)), C20's extension table and C11's collector rule are stated on it.
* **Recorded effects with canonical loop nests.** Calls of interest (`prove`, `send`, `execute`, `Vec::push`) are recorded with their
  path condition and loop stack; `for x in L.map(f).flat_map(g)`, nested `for` loops and `for_each` closures normalise to one nest. C10's
  once-per-problem rule and C20's single-pass / walk-order rules read those records.
* **Small-model evaluation of accessors** (`rules/absval.py`): the `Files` accessors are evaluated on every combination of bucket lengths
  against the role table, so `if is_empty()`, `match first()`, `or_else` chains and calls of one accessor from another are the same.
* **Helpers grafted into HIR-level rules.** For the rules that walk the HIR rather than evaluate it, the body of a later-extracted helper
  is attached to each of its call sites (`facts._graft_helpers`), `?`-propagation is followed through block tails and helper returns, and
  field initialisers are followed through named locals (`hq.walk_through_locals`).
* **Specialisation on concrete inputs, everywhere a function dispatches.** Beyond single constructors: `Formula::substitute`, the three
  term substitutions (every constructor x every sort of the variable x every constructor of the replacement), `inductive_lemma` (the accepted
  shape and one representative of every way to miss it), `extend_quantifier_scope` (side x connective), `evaluate_comparisons` (one guard
  per relation), `natural_comparison` (relation x shape of the right side), `break_equivalences_formula` (node kind), `subsort` (9 pairs),
  the routing of external equivalence (the task's side is the *singleton list* `[F]` for each role x direction x break flag; the buckets
  are read off the assembled task). `Formula <-> UnboxedFormula` conversions, `if let` / `let else` / or-patterns / indexing of literal
  lists are decided on such inputs, conditionals are lifted out of constructors (`Some(if c {a} else {b})` = `if c {Some(a)} else {Some(b)}`).
* **Loops by a shift argument.** `apply_fixpoint` is checked by one symbolic iteration: every exit needs `x == x.apply(f)` and yields `x` or
  `x.apply(f)`; the state after the iteration is the initial state with `self := self.apply(f)`. `while`, `loop` + `return`, one or two
  state variables are the same to it.
* **Parameterised helpers read like the code they were extracted from.** When a later-extracted helper is attached to a call site, literal
  arguments, plain locals and field paths are substituted for its parameters and literal names are folded into its `format!` templates
  (`implication_problem("forward", .., ("left", left.clone()), ..)`); rules that collect callees expand helpers; `?` is followed through
  block tails, match arms, `if` branches and helper returns.
* **Parenthesisation decided from path conditions.** The writes of an operand are found by their argument, and the (parent, child) row
  decides which write is reached; `a || b < c`, a three-way `cmp` match, locals and an extracted `fmt_operand` helper are all the same to it.

**Second round, first run: 35 of the 40 new refactorings made at least one check fail** - the generalisations above had been fitted to
the first sixty. What was removed this time (again only causes that are generic, each verified against all seeded changes and mutants):

* **Collections in one comprehension form** (`rules/comp.py`). A loop with `push` / `insert` / `extend`, an iterator chain (`map`, `filter`,
  `filter_map`, `flat_map`, `chain`, `enumerate`, `keys`, `values`, `once`, `Option::into_iter`), the entry-API idioms, an extracted helper
  passed as a function value, `collect::<Option<_>>()?` (read as a collection of `entry?`) and a `match` / `if` between collections all
  become `[(sources, [(facts, element)])]`. The references of C01 (chooser), C02 (routing, assembled task), C04 (completion, split,
  components), C08 (fresh variables, integer variables, body / program templates), C09 (sanitiser) and C11 / C12 / C13 are written in that
  form, and decision trees are compared as *functions of their atomic conditions* (`leaves.same_decision`), not as trees.
* **Rules restated on the evaluated term rather than on the statements that build it.** C03's routing and C02's control translation are
  decided on what the function returns for each concrete input shape; C05's prefixing, C07's comparison evaluation, C10's status table
  and C20's role table the same way. Negated arms, `let .. else`, `matches!` with a guard, a wildcard arm after explicit ones, early
  `continue` / `return` are all turned into facts of the path.
* **Renamed and moved functions** are read under the name the rules know them by (`rules/known_signatures.json`: a function of the
  reference list that no longer exists and exactly one new function with its signature, same module or same name).
* **Printers as text** (`printers.flat`). The writes of a `Display` impl are flattened to literal pieces and holes and the rules ask what is
  written *when given facts hold* (this sort, first / later element): one write or several, a separator kept in a local, named
  placeholders, a table printed through its own `Format<T>` impl or a match in place, `repeat_n(..).join(..)` or `intersperse(..).collect()`
  give the same text. C06's binder rules and C09's declaration rules are stated on it.
* **Spelling that cannot matter is erased before comparing**: closure parameter names (numbered by position), a two-way choice on a negated
  condition, named / positional / literal format arguments, struct-pattern bindings vs field access.

**Third round, first run: 32 of the 40 new refactorings made at least one check fail.** Removed this time (same discipline):

* **Values that leave early.** `if c { return A } B` is `if c { A } else { B }` for every template and table: formula templates (C01),
  printer tables read from the recorded writes rather than from the shape of the value (`printers.arm_writes`, C06 / C09 / C14 / C15), the
  parenthesisation conditions (`prec.eval_cond`), decisions specialised on literals (`comp.decide_literals`); a `continue` / `break` guard
  is a fact of every later exit of the same iteration (it used to be dropped from `return`s).
* **Printers as text, further.** A type that got its own `Display` impl after the rules were written is a helper of the printer that
  writes it (its writes happen at the `{}`); text built with `format!` and written through a `{}`, a literal kept in a new `const`, a
  conditional argument, `Some(x)?`, `Result::map` on a literal are folded. Name + sort suffix (C06 / C09), numerals, the rule separator and
  the literal pieces of the list printers (C14, path by path) are decided on that text.
* **Aggregates introduced by a refactoring are seen through.** A struct literal handed to a later-extracted helper (`ProofDirection { name:
  "forward", lemmas: self.proof_outline.forward_lemmas, .. }.outline_problems(..)`) is replaced by its fields inside the helper's copy, so
  the chain, sequencing and name rules of C02 / C09 / C10 / C13 read the same code as before; builder chains continue through the helper's
  return; a result struct is read by the role its fields play at the use site (C07 / C17: which field is substituted, which builds the
  replacement); a match on a tuple is seen through each component (`hq.matches_over`); slice patterns bind by position; a function value
  called by name is the call.
* **Decisions on concrete inputs instead of reference terms**, again: `tau_star_rule` (head predicate present / absent x arity 0, 1, 3),
  `Individuals::next` (a present / an exhausted guard), the chooser's search loop (truth table of its exit condition over the two
  membership tests), the ensure checks that involve no loop (decision tables), restrict_quantifier_domain (facts at the two call sites),
  pest-error propagation (the parse call answering `Err(e)`).
* **Anchors by role.** The operator argument of the val constructors by type, the side locals of strong equivalence by what feeds them,
  `transition_axioms` as a method or an associated function of the two programs, `natural` through the public trait entry, panic sites that
  moved into a new function of the same module directory.

**Fourth round, first run: 15 of the 40 commits made at least one check fail** (13 of the 20 maintenance commits and 2 of the 20 additions,
the two `debug_assert!`s below) - additions next to the code do not disturb the rules (floors and tables count what they name, not
what a file contains), and the maintenance commits failed on value-irrelevant spelling again. Removed:

* **Allocation is no part of a value.** `Vec::with_capacity(n)` is the empty list, `reserve` / `shrink_to_fit` are no-ops, an empty list
  extended by the elements of X is X (`ftpl.canon_iter`, C17's `_shape`); `T::clone(&x)` is `x.clone()`.
* **In-place updates.** `for x in xs.iter_mut() { x.f = E }` (possibly enumerated) updates every element of `xs` (the evaluator used to lose
  the write); `name.insert(0, 'f')` / `push_str` on the element are the prefix / the default name of C09's sanitiser; `retain(|k, v| keep)` is a
  filter, in order (`comp.coll`).
* **Membership however it is asked.** The name choosers may ask a predicate closure over the variables (`|n| variables.iter().any(|v| v.name
  == n)`) instead of building the list of taken names; V may be walked as `globals[0..arity]` itself instead of being indexed by the position
  of the head term (with a new obligation that `Head::arity` is the number of terms `Head::terms` hands out).
* **Text however it is written.** `f.write_str("tok")` writes what `write!(f, "tok")` writes; an arm that is `Ok(())` prints nothing.
* **Arithmetic on lengths cannot overflow.** `xs.len() + K`, `xs.len() + ys.len() + ..` over Vecs / slices of sized elements stay inside
  `usize` (a length is at most `isize::MAX / size_of::<T>()`): C16 discharges those overflow assertions structurally (`PANIC-TAB:len-plus-const`)
  instead of asking for a table entry.
* Locals hoisted out of a closure (`let outs = ug.output_predicates();`) are followed (C11), `axioms.iter().cloned()` is a copy of `axioms`
  like `axioms.clone()` (C13), `matches!` on a literal constructor is decided (C08), a loop element captured by a lazily evaluated closure is the
  element (C08 / C16).

Two of the additions stay flagged **by design**: `C01-9` and `C19-9` add a `debug_assert!` to reachable code. C16 reports every reachable
panic site that no table entry discharges; it cannot decide that the asserted condition holds on every input (in `C01-9` it is the contract of the
name chooser, in `C19-9` the number of parts of a broken equivalence), and a wrong `debug_assert!` is exactly a way to make a debug build of
anthem panic on some input while every test passes. The report names the function and the kind of site; the remedy is one line in the discharge
table with the invariant.

**Fifth round, first run: 28 of the 40 commits made at least one check fail** (10 of the 20 interface commits, 18 of the 20 expression-style
commits; several by the same construct: `sorted_unstable().tuple_windows()` for the symbol chain failed five, the predicate finder as a trait
method three, `Itertools::format` three). Removed:

* **Library spellings of what the rules already knew**: `Itertools::sorted[_unstable]` is the sorted list, `tuple_windows` its consecutive
  pairs (C12 chain); `x.iter().map(..).format(", ")` printed through `{}` is every element with the separator before all but the first
  (recorded as such by the evaluator; C09 / C14 / C15 list printers); `std::iter::zip(a, b)`; `mem::take`; `Option::unwrap_or_default` for the
  default direction; `extend_from_slice` next to `append` / `extend` in the outline sequencing; `retain(|v| !V.contains(v))` for the
  `shift_remove` loop of `free_variables`; `Iterator::flatten` over literal Options; an Option iterated inside a `chain` (its value when Some);
  `Option::filter` in a `let .. else` (Some and the filter holds); `(n..).map(format).find(|c| free(c))` for the chooser's counter loop
  (truth table of the closure, the range must be unbounded).
* **Anchors by role, again**: the function that finds the defined predicate (free, nested, or the method of a private trait), the subsort
  test (a function of two variables, or a trait method on sorts and variables - kept opaque when its callers are evaluated), the decoder of the
  prover's output (`TryFrom` or an associated function), conversions introduced later (`impl From<TotalFunction> for BinaryOperator`: inlined as
  helpers), the operator argument when it got an enum of its own (no catch-all arm left to discharge).
* **Result types of their own**: the two induction obligations as a struct with named fields (which field is the base case is read off the
  values), `Files::specification` answering with its own two-variant enum (the variant that carries a program file stands for `Either::Left`;
  fixed by the accessor table, used by the tag rule), accessors returning `Option<&Path>` through `as_path`.
* **The taken-predicates set in comprehension form** (C13 / C02): a loop per theory and one `chain` over both lists flat-mapped are the same
  three sources.
* One gap of *soundness* closed on the way: `zip_eq`, `swap_remove`, `split_off`, `Vec::remove`, `split_at`, `exactly_one` panic by contract
  and are now panic sites of C16 (none on the pinned tree); probe `C04-11`, which zips the atom's terms with the fresh names through `zip_eq`,
  is therefore flagged by C16 **by design** (the invariant `len(names) == arity` has to be entered) - and its three-way `multiunzip` is not
  seen through by C01 either.

After these changes **%d of the %d probes are silent on all 20 checks**; the other %d still fail at least one check although the property
holds. They are listed below as *known fail-closed cases*: restructurings that need algebraic or inductive knowledge the extractors do not have
(a recursion over the quantifier prefix rewritten as peel-loop + fold), option flags and portfolio tables copied into a new struct whose
methods read them, a whole function (`completion`) rebuilt around a new type whose `&mut self` methods do the steps, a new `debug_assert!` or `zip_eq`
(panic sites C16 cannot discharge by itself, see above), a classification enum returned by a helper with early returns and matched by its
caller (C08-10: a decision on a decision through `return`), a `format_with` callback printer (C06-11), `filter_ok` / `map_ok` / `fold_ok` over the
directory walk (C20-11), or `completion` rebuilt around a `Components` struct once more (C04-10).
A failing check on such an edit reports an `ANALYSIS-GAP` or a template mismatch naming the function; it is the one known way these
checks can fail on code where the property still holds, and the reason is in the report.

| probe | refactoring | checks that still fire |
|---|---|---|
""" % (n, silent, n, n - silent) + "\n".join(rows) + "\n\n"
p = os.path.join(V, "DESIGN.md")
s = open(p).read()
marker = "## 1. What I read, and what it implies for the analysis"
if "### 0.8 Robustness probes" in s:
    i = s.index("### 0.8 Robustness probes")
    j = s.index(marker)
    s = s[:i] + text + s[j:]
else:
    s = s.replace(marker, text + marker)
open(p, "w").write(s)
print("section 0.8: %d probes, %d silent" % (n, silent))
