#!/usr/bin/env python3
"""Regenerate /verif/MANIFEST.json from the property modules that exist under rules/props."""
import importlib
import json
import os
import sys

VERIF = os.path.dirname(os.path.dirname(os.path.abspath(__file__)))
sys.path.insert(0, VERIF)
sys.dont_write_bytecode = True

TECH = {}
checks = []
na = []
for i in range(1, 21):
    pid = "C%02d" % i
    path = os.path.join(VERIF, "rules", "props", pid.lower() + ".py")
    if not os.path.exists(path):
        na.append({"property_id": pid, "reason": "structural rules planned in DESIGN.md section 5 are not built yet; no weaker proxy is substituted"})
        continue
    mod = importlib.import_module("rules.props." + pid.lower())
    checks.append({
        "property_id": pid,
        "quick_cmd": "./check %s --tier quick" % pid,
        "thorough_cmd": "./check %s --tier thorough" % pid,
        "evidence_file": "/verif/evidence/%s.json" % pid,
        "replay_cmd_template": "./check --replay {path}",
        "engine": "anthem-facts + rules",
        "level_claimed": {
            "category": "other",
            "text": "Static analysis: structural necessary conditions of the property, decided exhaustively (for every input at once) over the "
                    "type-checked program extracted from /repo's current sources. " + mod.EXPLANATION,
            "design_ref": "DESIGN.md section 5, " + pid,
        },
        "level_note": "Decides the structural clauses only; not decided: " + "; ".join(mod.UNDECIDED) + ". Trusted: " + "; ".join(mod.ASSUMPTIONS),
        "technique": getattr(mod, "TECHNIQUE", "static analysis: custom rules over typed HIR/MIR facts (rustc_private driver) and pest grammar ASTs"),
    })

manifest = {
    "version": 1,
    "setup_cmd": "./setup.sh",
    "hooks": {
        "guard": "potassco_anthem_verif",
        "enable": "none needed: static analysis reads /repo's sources as they are (RUSTFLAGS='--cfg potassco_anthem_verif' is reserved and unused)",
        "baseline_off_cmd": "cd /repo && cargo test --workspace --no-fail-fast --offline",
        "source_commits": [],
        "add_only": True,
    },
    "engines": [
        {"name": "anthem-facts", "path": "tools/anthem-facts", "serves_properties": [c["property_id"] for c in checks],
         "kind_free_text": "rustc_private driver (nightly) injected with RUSTC_WORKSPACE_WRAPPER under cargo check: typed HIR with resolved paths/callees, ADTs, MIR CFG with dominators"},
        {"name": "pest-facts", "path": "tools/pest-facts", "serves_properties": ["C14", "C15", "C16", "C09"],
         "kind_free_text": "pest_meta-based dump of the two grammar.pest ASTs"},
        {"name": "rules", "path": "rules", "serves_properties": [c["property_id"] for c in checks],
         "kind_free_text": "Python rule engines (tables, flow/ordering, freshness, printer-vs-grammar, panic reachability, determinism, preamble, rewrite rules)"},
    ],
    "checks": checks,
    "not_applicable": na,
    "notes": "All checks are static: no anthem binary or test is executed. See DESIGN.md for the decided / not-decided clauses per property.",
}
with open(os.path.join(VERIF, "MANIFEST.json"), "w") as fh:
    json.dump(manifest, fh, indent=1)
print("checks:", [c["property_id"] for c in checks], "not_applicable:", [n["property_id"] for n in na])
