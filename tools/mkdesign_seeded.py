#!/usr/bin/env python3
"""Rewrites section 0.7 of DESIGN.md (seeded changes) from seeded/*/meta.json."""
import json, glob, os
V = os.path.dirname(os.path.dirname(os.path.abspath(__file__)))
rows, hist = [], []
metas = [json.load(open(f)) for f in sorted(glob.glob(os.path.join(V, "seeded", "*", "meta.json")))]
for d in metas:
    own = [x for x in d["fired"] if x.startswith(d["property"] + ":")]
    others = sorted({x.split(":")[0] for x in d["fired"] if not x.startswith(d["property"] + ":")} | {p for p, rc in d.get("checks_run", {}).items() if rc and p != d["property"]})
    rows.append("| %s | %s | %s | `%s`%s | %s |" % (d["id"], d["change"].replace("|", "/"), d["needs"].replace("|", "/"), own[0].split(":", 1)[1] if own else "-",
                                                  (" (+%d)" % (len(own) - 1)) if len(own) > 1 else "", ("also " + ", ".join(others)) if others else ""))
    if "history" in d:
        hist.append("* **%s** — %s." % (d["id"], d["history"]))
n = len(metas)
missed = sum(1 for d in metas if d.get("history", "").startswith("missed"))
text = """### 0.7 Seeded changes written by fresh sub-agents

In eight rounds, twenty sub-agents per round (one per property) were each given **only the text of their property** and a scratch git worktree
of `/repo` under `/tmp`, and asked for two realistic changes that break the property, still compile, keep the pinned test suite green, and
need something specific to manifest, each with a demonstration script (the second round asked to look beyond the most obvious edit sites; the
third asked that at least one of the two changes *adds* code - a fast path, a cache, a de-duplication step, a changed data structure, a change in
a function the named mechanisms call - rather than editing an existing line; the fourth, after the rules had been restated on what the
code computes (§0.2, §0.8), asked for one *small semantic slip* inside a named mechanism (swapped arguments, a weakened condition, the wrong variant
in one arm, the wrong one of two similar locals, `any` for `all`) and one *restructuring that looks like a clean-up* but changes a corner case;
the fifth, after collections had been brought to comprehension form (rules/comp.py), asked for one restructuring of code that *builds, filters,
groups or walks a collection* (loop <-> iterator chain, `filter` + `map` -> `filter_map`, `entry()` API, a moved early exit, fused or split loops)
and one small slip *outside* the obvious functions - in a helper, a collector, a `From` / `TryFrom` / `Display` impl, a constructor, a closure
parameter, a format string; the sixth asked for one change in a place a reader of the property would not think of first - a command handler,
a parser or a `.pest` grammar, a formatter, a conversion or `Default` impl, a regular expression, a lazy static - and one pure weakening or
one-token slip: a dropped check, `<` for `<=`, `&&` for `||`, the wrong one of two similar names, an off-by-one; the seventh asked for an
ordering / data-flow slip *between* steps - swapped pipeline steps, a stale clone, an accumulator reset per iteration, an iterator advanced
once too often, a truncating `zip` - and for a well-meant modernisation at the type level: another collection type, a hand-written
`PartialEq` / `Ord` / `Hash` on some of the fields, a derived order standing in for a relation, `dedup` for `unique`; the eighth asked for
a change in a *declarative artefact* - a `.pest` grammar, a Pratt table, the TPTP preamble, a `lazy_static` regex, a table of rewrite rules, a
clap attribute, a lookup-table `match` - and for a slip in an iterator adaptor or index expression: `take_while` for `filter`, `skip` / `zip`
/ `chunks` / `first` / `last` mix-ups).
I confirmed every one of the %d changes in a scratch worktree (`tools/seeded.py confirm`: patch applies, crate builds, 140 + 1 tests pass with
only the baseline UI failure, `demo.sh` exits 1 with the change and 0 without), then ran all 20 checks against each (`git -C /repo apply`,
`./check Cxx`, `git -C /repo checkout -- .`). They are kept under `seeded/<id>/` (`patch.diff`, the demonstration with its inputs, the
agent's `notes.md`, `meta.json`) and are part of the self-test catalogue of their property (`S-<id>`).

**First runs: in rounds one and two 30 of 40 were reported by the check of their own property and 10 were not; in round three 7 of 40, in
round four 6 of 40, in round five 14 of 40, in round six 17 of 40, in round seven 3 of 40 and in round eight 12 of 40 were not** (%d of %d in total; most of the round-five and round-six
misses were slips in shared code - the sort a collector tags a variable with, a conversion impl, a printer's precedence or relation table,
the order of the file arguments - that the check of *another* property already caught: the clause is now shared, i.e. the rule that decides
it runs under every property it is a necessary condition of; five of the round-six changes were caught by no check at all: the default sort
of a placeholder declared without one, the status pattern refusing an empty problem name, a grammar that admits one prefix operator where the
printer writes several, the numeral `1` under unary minus, and a grammar that admits annotations in an order the tree builder does not
expect). Every miss was a
gap in a rule, not a limit of the technique, and each was closed by strengthening the rule (never by special-casing the change); after that
all %d are reported by the check of their own property, %d of them as fail-closed analysis gaps rather than as a precise obligation:

""" % (n, missed, n, n, sum(1 for d in metas if "ANALYSIS-GAP" in d.get("history", ""))) + "\n".join(hist) + """

Two reports of these runs were **false alarms of mine**: C18's floor on the *number of hash-container uses* fired on C11-1, which replaces a
`HashMap` by an `IndexMap` (an improvement); and C14 / C15 fired on C06-4 (a change to the shared `fmt_unary` that only alters TPTP output)
because the parenthesisation model could not represent a three-way comparison. The floor was removed (and the other floors that count risky
sites lowered to collector-sanity values); the model now decides parentheses from the path conditions of the operand writes, and reports
C06-4 exactly (`PRN-T-INLINE:not/comparison2/inner`, C14 / C15 silent).

| id | change | needs to manifest | reported by (own property) | other properties |
|---|---|---|---|---|
""" + "\n".join(rows) + "\n\n"
p = os.path.join(V, "DESIGN.md")
s = open(p).read()
i = s.index("### 0.7 Seeded changes")
j = s.index("### 0.8 ") if "### 0.8 " in s else s.index("## 1. What I read, and what it implies for the analysis")
open(p, "w").write(s[:i] + text + s[j:])
print("section 0.7 rewritten: %d seeded changes, %d first-run misses" % (n, missed))
