//! pest-facts: dump the AST of a pest grammar (as pest_meta parses it — the same front end
//! pest_derive uses in anthem's build) as JSON on stdout.
use pest_meta::ast::{Expr, RuleType};
use pest_meta::parser::{self, Rule};

fn esc(s: &str) -> String {
    let mut o = String::from("\"");
    for c in s.chars() {
        match c {
            '"' => o.push_str("\\\""),
            '\\' => o.push_str("\\\\"),
            '\n' => o.push_str("\\n"),
            '\r' => o.push_str("\\r"),
            '\t' => o.push_str("\\t"),
            c if (c as u32) < 0x20 => o.push_str(&format!("\\u{:04x}", c as u32)),
            c => o.push(c),
        }
    }
    o.push('"');
    o
}

fn expr(e: &Expr) -> String {
    match e {
        Expr::Str(s) => format!("{{\"e\":\"str\",\"v\":{}}}", esc(s)),
        Expr::Insens(s) => format!("{{\"e\":\"insens\",\"v\":{}}}", esc(s)),
        Expr::Range(a, b) => format!("{{\"e\":\"range\",\"lo\":{},\"hi\":{}}}", esc(a), esc(b)),
        Expr::Ident(s) => format!("{{\"e\":\"ident\",\"v\":{}}}", esc(s)),
        Expr::PeekSlice(a, b) => format!("{{\"e\":\"peek\",\"a\":{},\"b\":{}}}", a, b.map(|x| x.to_string()).unwrap_or("null".into())),
        Expr::PosPred(x) => format!("{{\"e\":\"pos\",\"x\":{}}}", expr(x)),
        Expr::NegPred(x) => format!("{{\"e\":\"neg\",\"x\":{}}}", expr(x)),
        Expr::Seq(a, b) => format!("{{\"e\":\"seq\",\"a\":{},\"b\":{}}}", expr(a), expr(b)),
        Expr::Choice(a, b) => format!("{{\"e\":\"choice\",\"a\":{},\"b\":{}}}", expr(a), expr(b)),
        Expr::Opt(x) => format!("{{\"e\":\"opt\",\"x\":{}}}", expr(x)),
        Expr::Rep(x) => format!("{{\"e\":\"rep\",\"x\":{}}}", expr(x)),
        Expr::RepOnce(x) => format!("{{\"e\":\"rep1\",\"x\":{}}}", expr(x)),
        Expr::RepExact(x, n) => format!("{{\"e\":\"repn\",\"x\":{},\"min\":{},\"max\":{}}}", expr(x), n, n),
        Expr::RepMin(x, n) => format!("{{\"e\":\"repn\",\"x\":{},\"min\":{},\"max\":null}}", expr(x), n),
        Expr::RepMax(x, n) => format!("{{\"e\":\"repn\",\"x\":{},\"min\":0,\"max\":{}}}", expr(x), n),
        Expr::RepMinMax(x, a, b) => format!("{{\"e\":\"repn\",\"x\":{},\"min\":{},\"max\":{}}}", expr(x), a, b),
        Expr::Skip(v) => format!("{{\"e\":\"skip\",\"v\":[{}]}}", v.iter().map(|s| esc(s)).collect::<Vec<_>>().join(",")),
        Expr::Push(x) => format!("{{\"e\":\"push\",\"x\":{}}}", expr(x)),
    }
}

fn main() {
    let path = std::env::args().nth(1).expect("usage: pest-facts <grammar.pest>");
    let src = std::fs::read_to_string(&path).expect("read grammar");
    let pairs = match parser::parse(Rule::grammar_rules, &src) {
        Ok(p) => p,
        Err(e) => {
            eprintln!("grammar parse error: {}", e);
            std::process::exit(2);
        }
    };
    let rules = match parser::consume_rules(pairs) {
        Ok(r) => r,
        Err(es) => {
            for e in es {
                eprintln!("grammar error: {}", e);
            }
            std::process::exit(2);
        }
    };
    let mut out = Vec::new();
    for r in rules.iter() {
        let ty = match r.ty {
            RuleType::Normal => "normal",
            RuleType::Silent => "silent",
            RuleType::Atomic => "atomic",
            RuleType::CompoundAtomic => "compound_atomic",
            RuleType::NonAtomic => "non_atomic",
        };
        out.push(format!("{{\"name\":{},\"ty\":\"{}\",\"expr\":{}}}", esc(&r.name), ty, expr(&r.expr)));
    }
    println!("{{\"path\":{},\"rules\":[{}]}}", esc(&path), out.join(","));
}
